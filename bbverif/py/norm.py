"""Normalisation helpers that make the structural rules insensitive to equivalent spellings:
 - fmt_parts: one canonical form for str.format / f-string / '+' concatenation / '%' formatting
 - single_return: the returned expression of a helper whose body is a single `return <expr>` (after docstring / pure local bindings)
 - inline_call: substitute the arguments of such a helper call into its returned expression
"""
import ast
import copy
import re

from .index import u
from ..report import Inconclusive as Inconclusive_


def fmt_parts(e, names=None):
    """-> list of ('lit', text) | ('expr', ast node [, conversion/format spec text]) or None if e is not a string-building expression.
    names: optional {identifier: ast node} used to look through named string constants (module-level message templates)"""
    if isinstance(e, ast.Constant) and isinstance(e.value, str):
        return [("lit", e.value)]
    if isinstance(e, ast.Name) and names and e.id in names and isinstance(names[e.id], (ast.Constant, ast.JoinedStr, ast.BinOp)):
        return fmt_parts(names[e.id], None)
    if isinstance(e, ast.JoinedStr):
        out = []
        for v in e.values:
            if isinstance(v, ast.Constant):
                out.append(("lit", str(v.value)))
            elif isinstance(v, ast.FormattedValue):
                if v.conversion not in (-1, 115) or v.format_spec is not None:     # !s is the default for our purposes; anything else is kept opaque
                    out.append(("expr", v.value, "conv"))
                else:
                    inner = fmt_parts(v.value, names) if isinstance(v.value, (ast.JoinedStr, ast.Constant, ast.Name)) or _is_format_call(v.value) else None
                    if inner is not None:
                        out.extend(inner)             # a string spliced into a string
                    else:
                        out.append(("expr", v.value))
        return merge(out)
    if isinstance(e, ast.Call) and isinstance(e.func, ast.Attribute) and e.func.attr == "format" and not e.keywords:
        base = fmt_parts(e.func.value, names)
        if base is None or any(k != "lit" for k, *_ in base):
            return None
        text = "".join(p[1] for p in base)
        if any(isinstance(a, ast.Starred) for a in e.args):
            # "{}[{}, {}]".format(name, *A.shape): keep the starred argument as one opaque hole sequence
            return starred_format(text, e.args)
        out = []
        auto = 0
        pos = 0
        for m in re.finditer(r"\{(\d*)\}", text):
            out.append(("lit", text[pos:m.start()]))
            idx = int(m.group(1)) if m.group(1) else auto
            auto += 1
            if idx >= len(e.args):
                return None
            a_ = e.args[idx]
            inner = fmt_parts(a_, names) if isinstance(a_, ast.JoinedStr) or _is_format_call(a_) or (isinstance(a_, ast.Constant) and isinstance(a_.value, str)) else None
            if inner is not None:
                out.extend(inner)
            else:
                out.append(("expr", a_))
            pos = m.end()
        out.append(("lit", text[pos:]))
        if "{" in re.sub(r"\{(\d*)\}", "", text).replace("{{", "").replace("}}", ""):
            return None
        return merge(out)
    if isinstance(e, ast.BinOp) and isinstance(e.op, ast.Add):
        a, b = fmt_parts(e.left, names), fmt_parts(e.right, names)
        if a is not None and b is not None:
            return merge(a + b)
        if a is not None and is_stringy(e.right):
            return merge(a + [("expr", e.right)])
        if b is not None and is_stringy(e.left):
            return merge([("expr", e.left)] + b)
    return None


def _is_format_call(e):
    return isinstance(e, ast.Call) and isinstance(e.func, ast.Attribute) and e.func.attr == "format" and isinstance(e.func.value, (ast.Constant, ast.JoinedStr))


def _string_uses_only(stmt, x):
    """every read of x inside stmt is a piece of a larger string: an f-string hole, an argument or the receiver of str.format, an operand
    of a concatenation"""
    parent = {}
    for n in ast.walk(stmt):
        for c in ast.iter_child_nodes(n):
            parent[id(c)] = n
    for n in ast.walk(stmt):
        if isinstance(n, ast.Name) and n.id == x and isinstance(n.ctx, ast.Load):
            p = parent.get(id(n))
            if isinstance(p, ast.FormattedValue):
                continue
            if isinstance(p, ast.BinOp) and isinstance(p.op, ast.Add):
                continue
            if isinstance(p, ast.Attribute) and p.attr == "format" and isinstance(parent.get(id(p)), ast.Call):
                continue
            if isinstance(p, ast.Call) and isinstance(p.func, ast.Attribute) and p.func.attr == "format" and n in p.args and fmt_parts(p.func.value) is not None:
                continue
            return False
    return True


def propagate_templates(fn):
    """block-local copy propagation of string templates: after `x = <string-building expression>` (literal, f-string, literal.format(...),
    concatenation with a literal) the later statements of the same block read the expression instead of x, up to the first statement
    that may rebind x or a name the expression reads.  `prefix = f"... {line}"; raise E(f"{prefix} ...")` reads like the one-piece message."""
    def stores_in(node):
        out = set()
        for n in ast.walk(node):
            if isinstance(n, ast.Name) and isinstance(n.ctx, (ast.Store, ast.Del)):
                out.add(n.id)
        return out

    def fblock(stmts):
        stmts = list(stmts)
        for i, s in enumerate(stmts):
            if not (isinstance(s, ast.Assign) and len(s.targets) == 1 and isinstance(s.targets[0], ast.Name)):
                continue
            x, v = s.targets[0].id, s.value
            parts = fmt_parts(v)
            if parts is None or not any(p[0] == "lit" for p in parts):
                continue
            if any(isinstance(n, (ast.Call,)) and not _is_format_call(n) and not (isinstance(n.func, ast.Attribute) and not n.args and not n.keywords) for n in ast.walk(v)):
                continue                       # only pure pieces: names, attributes, accessor calls without arguments
            free = {n.id for n in ast.walk(v) if isinstance(n, ast.Name)}
            if x in free:
                continue
            # range of the propagation: up to the first statement that may rebind x or a name the expression reads
            end = i + 1
            partial = None
            while end < len(stmts):
                st = stores_in(stmts[end])
                if st & (free | {x}):
                    if isinstance(stmts[end], (ast.Assign, ast.AugAssign, ast.AnnAssign, ast.Expr, ast.Return, ast.Raise)):
                        partial = end          # a simple statement reads its operands before it stores
                    break
                end += 1
            rng = list(range(i + 1, end)) + ([partial] if partial is not None else [])
            if not rng or not all(_string_uses_only(stmts[j], x) for j in rng):
                continue
            # x must not be read after the range either (otherwise it is a value in its own right, not a piece of a message)
            if any(isinstance(n, ast.Name) and n.id == x and isinstance(n.ctx, ast.Load) for j in range(i + 1, len(stmts)) if j not in rng for n in ast.walk(stmts[j])):
                continue
            sub = _Sub({x: v})
            for j in rng:
                stmts[j] = sub.visit(stmts[j])
        return stmts
    return _map_blocks(fn, fblock)


def starred_format(text, args):
    out = []
    pos = 0
    flat = []
    for a in args:
        flat.append(("star", a.value) if isinstance(a, ast.Starred) else ("one", a))
    fields = list(re.finditer(r"\{(\d*)\}", text))
    ai = 0
    for k, m in enumerate(fields):
        out.append(("lit", text[pos:m.start()]))
        pos = m.end()
        if ai < len(flat) and flat[ai][0] == "one":
            a_ = flat[ai][1]
            inner = fmt_parts(a_) if isinstance(a_, ast.JoinedStr) or _is_format_call(a_) or (isinstance(a_, ast.Constant) and isinstance(a_.value, str)) else None
            if inner is not None:
                out.extend(inner)
            else:
                out.append(("expr", a_))
            ai += 1
        else:
            # remaining fields are fed by the starred sequence
            node = flat[ai][1] if ai < len(flat) else None
            if node is None:
                return None
            j = k - sum(1 for f in flat[:ai] if f[0] == "one")
            out.append(("expr", ast.Subscript(value=node, slice=ast.Constant(value=j), ctx=ast.Load())))
    out.append(("lit", text[pos:]))
    return merge(out)


def is_stringy(e):
    return isinstance(e, (ast.Name, ast.Call, ast.Attribute, ast.Subscript))


def merge(parts):
    out = []
    for p in parts:
        if p[0] == "lit":
            if not p[1]:
                continue
            if out and out[-1][0] == "lit":
                out[-1] = ("lit", out[-1][1] + p[1])
                continue
        out.append(p)
    return out


def canon(parts):
    """hashable canonical form: literal text and unparsed hole expressions"""
    return tuple((p[0], p[1] if p[0] == "lit" else " ".join(u(p[1]).split())) + tuple(p[2:]) for p in parts)


def canon_text(e):
    p = fmt_parts(e)
    if p is None:
        return None
    return "".join(x[1] if x[0] == "lit" else "{%s}" % " ".join(u(x[1]).split()) for x in p)


def single_return(fn):
    """(returned expression, {local: value expr}) for a function whose body is docstring? + simple local bindings + one return"""
    body = [s for s in fn.body if not (isinstance(s, ast.Expr) and isinstance(s.value, ast.Constant))]
    binds = {}
    for s in body[:-1]:
        if isinstance(s, ast.Assign) and len(s.targets) == 1 and isinstance(s.targets[0], ast.Name):
            binds[s.targets[0].id] = s.value
        else:
            return None, None
    if body and isinstance(body[-1], ast.Return) and body[-1].value is not None:
        return body[-1].value, binds
    return None, None


class _Sub(ast.NodeTransformer):
    def __init__(self, mapping):
        self.mapping = mapping

    def visit_Name(self, node):
        if isinstance(node.ctx, ast.Load) and node.id in self.mapping:
            return copy.deepcopy(self.mapping[node.id])
        return node


def inline_call(ix, mod, call, depth=0):
    """if `call` invokes a package helper with a single-return body, the returned expression with parameters replaced by the call's arguments"""
    if not isinstance(call, ast.Call) or depth > 3:
        return None
    q = None
    if isinstance(call.func, ast.Name):
        q = ix.resolve_name(mod, call.func.id)
    elif isinstance(call.func, ast.Attribute) and isinstance(call.func.value, ast.Name) and call.func.value.id == "self":
        cands = [k for k, f in ix.funcs.items() if f.cls and f.name == call.func.attr and f.mod == mod]
        q = cands[0] if len(cands) == 1 else None
    if q not in ix.funcs:
        return None
    f = ix.funcs[q]
    ret, binds = single_return(f.node)
    if ret is None:
        return None
    params = [p for p in f.params if p != "self"]
    if len(call.args) > len(params) or any(isinstance(a, ast.Starred) for a in call.args):
        return None
    mapping = dict(zip(params, call.args))
    for k in call.keywords:
        if k.arg is None:
            return None
        mapping[k.arg] = k.value
    if set(params) - set(mapping):
        defaults = f.node.args.defaults
        for p, d in zip(params[len(params) - len(defaults):], defaults):
            mapping.setdefault(p, d)
    if set(params) - set(mapping):
        return None
    # local bindings first (in order), then parameters
    expr = copy.deepcopy(ret)
    for name in reversed(list(binds)):
        expr = _Sub({name: binds[name]}).visit(expr)
    expr = _Sub(mapping).visit(expr)
    ast.fix_missing_locations(expr)
    return expr, f


def local_names(fn):
    """names bound anywhere in the function (assignments, loop / comprehension / with targets), excluding parameters"""
    out = set()
    for n in ast.walk(fn):
        if isinstance(n, ast.Name) and isinstance(n.ctx, ast.Store):
            out.add(n.id)
    return out


def alpha(nodes, locals_):
    """source text of the statement / expression list with local names replaced by v0, v1, ... in order of first occurrence"""
    mapping = {}

    class R(ast.NodeTransformer):
        def visit_Name(self, node):
            if node.id in locals_:
                if node.id not in mapping:
                    mapping[node.id] = "v%d" % len(mapping)
                return ast.copy_location(ast.Name(id=mapping[node.id], ctx=node.ctx), node)
            return node
    out = []
    for n in nodes:
        m = R().visit(copy.deepcopy(n))
        out.append(" ".join(u(m).split()))
    return out


def alpha_of_source(src, locals_):
    return alpha(ast.parse(src).body, locals_)


# ------------------------------------------------------------------------------------------------ statement-level helper inlining
class _Rename(ast.NodeTransformer):
    def __init__(self, names, exprs):
        self.names, self.exprs = names, exprs      # names: local -> new local name ; exprs: parameter -> argument expression

    def visit_Name(self, node):
        if node.id in self.exprs and isinstance(node.ctx, ast.Load):
            return copy.deepcopy(self.exprs[node.id])
        if node.id in self.names:
            return ast.copy_location(ast.Name(id=self.names[node.id], ctx=node.ctx), node)
        return node


def _stored_names(node):
    out = set()
    for n in ast.walk(node):
        if isinstance(n, ast.Name) and isinstance(n.ctx, ast.Store):
            out.add(n.id)
        elif isinstance(n, ast.arg):
            out.add(n.arg)
    return out


def _shallow_returns(stmts):
    out = []
    todo = list(stmts)
    while todo:
        s = todo.pop()
        if isinstance(s, (ast.FunctionDef, ast.AsyncFunctionDef, ast.ClassDef, ast.Lambda)):
            continue
        if isinstance(s, ast.Return):
            out.append(s)
        todo.extend(ast.iter_child_nodes(s))
    return out


def _has_return(node):
    return bool(_shallow_returns([node]))


class _Abort(Exception):
    pass


_TMP = [0]


def _tailify(stmts, k, after):
    """statements equivalent to: run stmts; at `return e` continue with k(e); when the block falls through continue with `after`
    (early returns turn into if/else nesting; the continuation is duplicated into the branches that reach it)"""
    out = []
    for i, s in enumerate(stmts):
        if isinstance(s, ast.Return):
            return out + k(s.value)
        if isinstance(s, ast.Raise):
            return out + [s]
        if isinstance(s, ast.If) and _has_return(s):
            rest = _tailify(stmts[i + 1:], k, after)
            body = _tailify(s.body, k, rest)
            orelse = _tailify(s.orelse, k, rest)
            return out + [ast.copy_location(ast.If(test=s.test, body=body or [ast.Pass()], orelse=orelse), s)]
        if isinstance(s, ast.Try) and _has_return(s) and not s.finalbody:
            # `try: ...; return e` / returns inside handlers: the value is bound inside the try, the continuation runs in the else clause
            # (where, as after the original return, the handlers no longer apply)
            body = list(s.body)
            if any(_has_return(b_) for b_ in body[:-1]):
                raise _Abort()
            rest = _tailify(stmts[i + 1:], k, after)
            if isinstance(body[-1], ast.Return):
                if s.orelse:
                    raise _Abort()
                _TMP[0] += 1
                tmp = "_r%d" % _TMP[0]
                val = body[-1].value if body[-1].value is not None else ast.Constant(value=None)
                body = body[:-1] + [ast.copy_location(ast.Assign(targets=[ast.Name(id=tmp, ctx=ast.Store())], value=val), body[-1])]
                orelse = k(ast.Name(id=tmp, ctx=ast.Load()))
            elif _has_return(body[-1]):
                raise _Abort()
            else:
                orelse = _tailify(s.orelse, k, rest)
            handlers = []
            for h in s.handlers:
                h2 = copy.copy(h)
                h2.body = _tailify(h.body, k, rest) or [ast.Pass()]
                handlers.append(h2)
            return out + [ast.copy_location(ast.Try(body=body, handlers=handlers, orelse=orelse, finalbody=[]), s)]
        if _has_return(s):
            raise _Abort()              # return from inside a loop / with / match: not a tail shape
        out.append(s)
    return out + copy.deepcopy(after)


# ------------------------------------------------------------------------------------------------ match statements -> if chains
def desugar_match(fn):
    """`match x: case C(): ... case A() | B() if g: ... case "lit": ... case _: ...`  ->  if/elif chain over isinstance / == tests.
    Only matches whose subject is a plain name/attribute and whose patterns are of those forms are rewritten."""
    def test_of(subject, pat):
        if isinstance(pat, ast.MatchClass) and not pat.patterns and not pat.kwd_patterns:
            return ast.Call(func=ast.Name(id="isinstance", ctx=ast.Load()), args=[copy.deepcopy(subject), copy.deepcopy(pat.cls)], keywords=[])
        if isinstance(pat, ast.MatchValue):
            return ast.Compare(left=copy.deepcopy(subject), ops=[ast.Eq()], comparators=[copy.deepcopy(pat.value)])
        if isinstance(pat, ast.MatchSingleton):
            return ast.Compare(left=copy.deepcopy(subject), ops=[ast.Is()], comparators=[ast.Constant(value=pat.value)])
        if isinstance(pat, ast.MatchOr):
            subs = [test_of(subject, q) for q in pat.patterns]
            if any(t is None for t in subs):
                return None
            if all(isinstance(t, ast.Call) for t in subs):
                return ast.Call(func=ast.Name(id="isinstance", ctx=ast.Load()), args=[copy.deepcopy(subject), ast.Tuple(elts=[t.args[1] for t in subs], ctx=ast.Load())], keywords=[])
            return ast.BoolOp(op=ast.Or(), values=subs)
        if isinstance(pat, ast.MatchAs) and pat.pattern is None and pat.name is None:
            return True
        return None

    class T(ast.NodeTransformer):
        def visit_Match(self, node):
            self.generic_visit(node)
            if not isinstance(node.subject, (ast.Name, ast.Attribute)):
                return node
            arms = []
            for c in node.cases:
                t = test_of(node.subject, c.pattern)
                if t is None:
                    return node
                if c.guard is not None:
                    t = c.guard if t is True else ast.BoolOp(op=ast.And(), values=[t, c.guard])
                arms.append((t, c.body))
            chain = None
            for t, body in reversed(arms):
                if t is True:
                    chain = list(body)
                else:
                    chain = [ast.If(test=t, body=list(body), orelse=chain or [])]
            if chain is None:
                return node
            for c in chain:
                ast.copy_location(c, node)
                ast.fix_missing_locations(c)
            return chain

    fn = T().visit(fn)
    ast.fix_missing_locations(fn)
    return fn


# ------------------------------------------------------------------------------------------------ loops over constant tables
def _map_blocks(fn, fblock):
    """apply fblock(list of statements) -> list of statements to every statement list of fn, innermost first"""
    def rec(stmts):
        for s in stmts:
            for field in ("body", "orelse", "finalbody"):
                sub = getattr(s, field, None)
                if isinstance(sub, list) and sub and isinstance(sub[0], ast.stmt):
                    setattr(s, field, rec(sub))
            if isinstance(s, ast.Try):
                for h in s.handlers:
                    h.body = rec(h.body)
            if isinstance(s, ast.Match):
                for c in s.cases:
                    c.body = rec(c.body)
        return fblock(stmts)
    fn.body = rec(fn.body)
    ast.fix_missing_locations(fn)
    return fn


def _always_leaves(stmts):
    for s in stmts:
        if isinstance(s, (ast.Raise, ast.Return)):
            return True
        if isinstance(s, ast.If) and s.orelse and _always_leaves(s.body) and _always_leaves(s.orelse):
            return True
    return False


def as_expression(stmts):
    """the value a side-effect-free, loop-free function body returns, as one expression: local bindings are substituted (each is an
    expression of the parameters), `if c: return A` followed by REST becomes `A if c else <REST>`.  None when the body has any other shape
    (a loop, a call statement, a raise, a fall-through without return)."""
    def rec(ss, env):
        ss = [x for x in ss if not (isinstance(x, ast.Expr) and isinstance(x.value, ast.Constant)) and not isinstance(x, ast.Pass)]
        if not ss:
            return None
        s0, rest = ss[0], ss[1:]
        sub = lambda e: _Rename({}, env).visit(copy.deepcopy(e))
        if isinstance(s0, ast.Return):
            return sub(s0.value) if s0.value is not None else ast.Constant(value=None)
        if isinstance(s0, ast.Assign) and len(s0.targets) == 1 and isinstance(s0.targets[0], ast.Name):
            return rec(rest, dict(env, **{s0.targets[0].id: sub(s0.value)}))
        if isinstance(s0, ast.If):
            a = rec(s0.body + ([] if _always_leaves(s0.body) else rest), dict(env))
            b = rec((s0.orelse + ([] if _always_leaves(s0.orelse) else rest)) if s0.orelse else rest, dict(env))
            if a is None or b is None:
                return None
            return ast.IfExp(test=sub(s0.test), body=a, orelse=b)
        return None
    e = rec(list(stmts), {})
    if e is not None:
        e = ast.fix_missing_locations(ast.Expression(body=e)).body
    return e


def distribute_selectors(fn, limit_rest=12, limit_arms=6):
    """an if/elif ladder whose arms only choose values for some locals - `if c1: word = "int"; fmt = f1  elif c2: ...  else: raise` - followed by
    code that uses the chosen values: the code that follows is moved into every arm with the chosen values written in place (the ladder then
    reads like the one a developer writes out by hand).  Arms may also raise.  Exact: each arm runs what it ran before."""
    local = _stored_names(fn)

    def simple_value(e):
        """a literal, a lambda, or a reference to something of module level (a helper function, np.exp, '{}'.format) - never state of the call"""
        if isinstance(e, (ast.Constant, ast.Lambda)):
            return True
        if isinstance(e, ast.Name):
            return e.id not in local
        if isinstance(e, ast.Attribute):
            return simple_value(e.value)
        return False

    def arms_of(s_):
        arms = []
        cur = s_
        while True:
            arms.append(cur.body)
            if len(cur.orelse) == 1 and isinstance(cur.orelse[0], ast.If):
                cur = cur.orelse[0]
                continue
            arms.append(cur.orelse)
            return arms

    def fblock(stmts):
        for i, s_ in enumerate(stmts):
            if not isinstance(s_, ast.If) or i + 1 >= len(stmts):
                continue
            arms = arms_of(s_)
            rest = stmts[i + 1:]
            if not (2 <= len(arms) <= limit_arms + 1) or len(rest) > limit_rest:
                continue
            names = set()
            ok = True
            choosing = 0
            for a in arms:
                if _always_leaves(a) and all(isinstance(x, (ast.Raise, ast.Return, ast.Expr)) for x in a):
                    continue
                if not a or not all(isinstance(x, ast.Assign) and len(x.targets) == 1 and isinstance(x.targets[0], ast.Name) and simple_value(x.value) for x in a):
                    ok = False
                    break
                names |= {x.targets[0].id for x in a}
                choosing += 1
            if not ok or choosing < 2 or not names:
                continue
            # every choosing arm binds all of the names; the rest reads them and never rebinds them; nothing else in the function reads them
            if any({x.targets[0].id for x in a} != names for a in arms if a and not _always_leaves(a)):
                continue
            if any(not a for a in arms):
                continue          # a fall-through arm (no else) would leave the names unbound: not this shape
            rest_stores = set()
            for r_ in rest:
                rest_stores |= _stored_names(r_)
            if names & rest_stores:
                continue
            if not any(isinstance(x, ast.Name) and x.id in names for r_ in rest for x in ast.walk(r_)):
                continue
            tests_read = any(isinstance(x, ast.Name) and x.id in names for x in ast.walk(s_.test))
            if tests_read:
                continue

            def rebuild(cur):
                def arm(body):
                    if _always_leaves(body):
                        return body
                    env = {x.targets[0].id: x.value for x in body}
                    return [_Rename({}, env).visit(copy.deepcopy(r_)) for r_ in rest]
                new = ast.If(test=cur.test, body=arm(cur.body), orelse=[])
                if len(cur.orelse) == 1 and isinstance(cur.orelse[0], ast.If):
                    new.orelse = [rebuild(cur.orelse[0])]
                else:
                    new.orelse = arm(cur.orelse)
                return ast.copy_location(new, cur)
            return stmts[:i] + [rebuild(s_)]
        return stmts
    return _map_blocks(fn, fblock)


def fold_library_pairs(fn):
    """two-statement spellings of one library call (library model: networkx): `G.add_node(n)` immediately followed by
    `G.nodes[n].update(D)` is `G.add_node(n, **D)`; followed by `G.nodes[n][k] = v` ... it is left alone."""
    def fblock(stmts):
        out = []
        i = 0
        while i < len(stmts):
            s_ = stmts[i]
            nxt = stmts[i + 1] if i + 1 < len(stmts) else None
            if isinstance(s_, ast.Expr) and isinstance(s_.value, ast.Call) and isinstance(s_.value.func, ast.Attribute) and s_.value.func.attr == "add_node" and len(s_.value.args) == 1 \
                    and not s_.value.keywords and isinstance(nxt, ast.Expr) and isinstance(nxt.value, ast.Call) and isinstance(nxt.value.func, ast.Attribute) and nxt.value.func.attr == "update" \
                    and len(nxt.value.args) == 1 and not nxt.value.keywords:
                recv = nxt.value.func.value
                g, n = u(s_.value.func.value), " ".join(u(s_.value.args[0]).split())
                if isinstance(recv, ast.Subscript) and " ".join(u(recv.value).split()) in ("%s.nodes" % g, "%s._node" % g) and " ".join(u(recv.slice).split()) == n \
                        and isinstance(s_.value.args[0], (ast.Name, ast.Constant, ast.Attribute, ast.Subscript)):
                    merged = ast.Expr(value=ast.Call(func=s_.value.func, args=list(s_.value.args), keywords=[ast.keyword(arg=None, value=nxt.value.args[0])]))
                    out.append(ast.copy_location(merged, s_))
                    i += 2
                    continue
            # G.add_edges_from(<pairs>) without attributes is the loop of add_edge over the pairs, in order
            if isinstance(s_, ast.Expr) and isinstance(s_.value, ast.Call) and isinstance(s_.value.func, ast.Attribute) and s_.value.func.attr == "add_edges_from" and len(s_.value.args) == 1 \
                    and not s_.value.keywords and not any(isinstance(n, ast.Name) and n.id in ("_u", "_v") for n in ast.walk(fn)):
                call = ast.Call(func=ast.Attribute(value=s_.value.func.value, attr="add_edge", ctx=ast.Load()), args=[ast.Name(id="_u", ctx=ast.Load()), ast.Name(id="_v", ctx=ast.Load())], keywords=[])
                loop = ast.For(target=ast.Tuple(elts=[ast.Name(id="_u", ctx=ast.Store()), ast.Name(id="_v", ctx=ast.Store())], ctx=ast.Store()), iter=s_.value.args[0],
                               body=[ast.copy_location(ast.Expr(value=call), s_)], orelse=[])
                out.append(ast.copy_location(loop, s_))
                i += 1
                continue
            out.append(s_)
            i += 1
        return out
    fn = _map_blocks(fn, fblock)
    return fn


def drop_identity_stores(fn):
    """inside `for i, x in enumerate(C)` / `for k, x in D.items()`: `C[i] = x` / `D[k] = x` (with i, k, x the loop's own names, not rebound in
    the body) stores the element back where it was read from - a no-op, which an inlined helper that "returns the value unchanged" produces"""
    def rec(loop):
        it = loop.iter
        cont = None
        if isinstance(it, ast.Call) and u(it.func) == "enumerate" and len(it.args) == 1 and not it.keywords and isinstance(it.args[0], (ast.Name, ast.Attribute, ast.Subscript)):
            cont = " ".join(u(it.args[0]).split())
        elif isinstance(it, ast.Call) and isinstance(it.func, ast.Attribute) and it.func.attr == "items" and not it.args:
            cont = " ".join(u(it.func.value).split())
        if cont is None or not (isinstance(loop.target, ast.Tuple) and len(loop.target.elts) == 2 and all(isinstance(e_, ast.Name) for e_ in loop.target.elts)):
            return
        k, x = loop.target.elts[0].id, loop.target.elts[1].id
        rebound = set()
        for b_ in loop.body:
            rebound |= _stored_names(b_)
        if k in rebound or x in rebound:
            return

        def fblock(stmts):
            out = []
            for s_ in stmts:
                if isinstance(s_, ast.Assign) and len(s_.targets) == 1 and isinstance(s_.targets[0], ast.Subscript) and " ".join(u(s_.targets[0].value).split()) == cont \
                        and isinstance(s_.targets[0].slice, ast.Name) and s_.targets[0].slice.id == k and isinstance(s_.value, ast.Name) and s_.value.id == x:
                    out.append(ast.copy_location(ast.Pass(), s_))
                else:
                    out.append(s_)
            return out
        holder = ast.FunctionDef(name="_", args=ast.arguments(posonlyargs=[], args=[], kwonlyargs=[], kw_defaults=[], defaults=[]), body=loop.body, decorator_list=[])
        loop.body = _map_blocks(holder, fblock).body
    for n in ast.walk(fn):
        if isinstance(n, ast.For):
            rec(n)
    # `if c: pass else: S` -> `if not c: S`; an `if` whose branches are all `pass` disappears when its test is a pure type / subset test
    def tidy(stmts):
        out = []
        for s_ in stmts:
            if isinstance(s_, ast.If):
                body_pass = all(isinstance(b_, ast.Pass) for b_ in s_.body)
                else_pass = all(isinstance(b_, ast.Pass) for b_ in s_.orelse)
                if body_pass and s_.orelse and not else_pass:
                    neg = s_.test.operand if isinstance(s_.test, ast.UnaryOp) and isinstance(s_.test.op, ast.Not) else ast.UnaryOp(op=ast.Not(), operand=s_.test)
                    s_ = ast.copy_location(ast.If(test=neg, body=s_.orelse, orelse=[]), s_)
                elif not body_pass and s_.orelse and else_pass:
                    s_.orelse = []
            out.append(s_)
        return out
    fn = _map_blocks(fn, tidy)
    ast.fix_missing_locations(fn)
    return fn


def scalar_replace_records(ix, f, fn):
    """a local bound once to `C()` with C a @dataclass of the package all of whose fields have defaults, and used only as `x.<field>` (its
    methods have been read into the function by the inliner): the fields become locals `x_<field>` initialised to their defaults where the
    object was created.  Exact as long as the object itself goes nowhere (no other use of the name)."""
    recs = record_classes(ix)
    if not recs:
        return fn
    for st_ in list(fn.body):
        if not (isinstance(st_, ast.Assign) and len(st_.targets) == 1 and isinstance(st_.targets[0], ast.Name) and isinstance(st_.value, ast.Call) and isinstance(st_.value.func, ast.Name)
                and not st_.value.args and not st_.value.keywords):
            continue
        x = st_.targets[0].id
        q = ix.resolve_name(f.mod, st_.value.func.id)
        if q not in recs or q not in ix.classes:
            continue
        cls = ix.classes[q]
        if not any(_decorator_name(d) in ("dataclass", "dataclasses.dataclass") for d in cls.decorator_list):
            continue
        defaults = {}
        for n in cls.body:
            if isinstance(n, ast.AnnAssign) and isinstance(n.target, ast.Name) and n.value is not None:
                v = n.value
                if isinstance(v, ast.Constant):
                    defaults[n.target.id] = v
                elif isinstance(v, ast.Call) and u(v.func) in ("field", "dataclasses.field") and len(v.keywords) == 1 and v.keywords[0].arg == "default_factory" and u(v.keywords[0].value) in ("list", "dict", "set"):
                    defaults[n.target.id] = {"list": ast.List(elts=[], ctx=ast.Load()), "dict": ast.Dict(keys=[], values=[]), "set": ast.Call(func=ast.Name(id="set", ctx=ast.Load()), args=[], keywords=[])}[u(v.keywords[0].value)]
                elif isinstance(v, ast.Call) and u(v.func) in ("field", "dataclasses.field") and len(v.keywords) == 1 and v.keywords[0].arg == "default" and isinstance(v.keywords[0].value, ast.Constant):
                    defaults[n.target.id] = v.keywords[0].value
        if set(defaults) != set(recs[q]):
            continue
        uses = [n for n in ast.walk(fn) if isinstance(n, ast.Name) and n.id == x]
        attrs = [n for n in ast.walk(fn) if isinstance(n, ast.Attribute) and isinstance(n.value, ast.Name) and n.value.id == x]
        if len(uses) != len(attrs) + 1 or any(a.attr not in defaults for a in attrs):
            continue
        taken = {n.id for n in ast.walk(fn) if isinstance(n, ast.Name)}
        new = {fld: ("%s_%s" % (x, fld) if "%s_%s" % (x, fld) not in taken else "_%s_%s" % (x, fld)) for fld in defaults}

        class R(ast.NodeTransformer):
            def visit_Attribute(self, node):
                if isinstance(node.value, ast.Name) and node.value.id == x:
                    return ast.copy_location(ast.Name(id=new[node.attr], ctx=node.ctx), node)
                return self.generic_visit(node)
        i = fn.body.index(st_)
        inits = [ast.copy_location(ast.Assign(targets=[ast.Name(id=new[fld], ctx=ast.Store())], value=copy.deepcopy(defaults[fld])), st_) for fld in recs[q]]
        rest = [R().visit(b_) for b_ in fn.body[i + 1:]]
        fn.body = fn.body[:i] + inits + rest
        ast.fix_missing_locations(fn)
    return fn


def canonical_locals(ix, f, fn):
    """the locals of the array-declaration handler are given the names the rules speak of, by what they *are* (alpha-renaming, no capture):
    `value` - the list handed to np.array(...) as the concrete entries; `parameters` - the list that receives (position, symbol) pairs;
    `final_value` - the name stored into the variable table; `shape` - the tuple read from the shape child."""
    if f.qual == "program.BlackbirdProgram.serialize":
        # `script` - the list of lines whose join is returned
        got = set()
        for n in ast.walk(fn):
            if isinstance(n, ast.Return) and isinstance(n.value, ast.Call) and isinstance(n.value.func, ast.Attribute) and n.value.func.attr == "join" and len(n.value.args) == 1 \
                    and isinstance(n.value.args[0], ast.Name) and isinstance(n.value.func.value, ast.Constant):
                got.add(n.value.args[0].id)
        names = {x.id for x in ast.walk(fn) if isinstance(x, ast.Name)} | {a.arg for a in fn.args.posonlyargs + fn.args.args}
        if len(got) == 1 and "script" not in names:
            fn = _Rename({next(iter(got)): "script"}, {}).visit(fn)
            ast.fix_missing_locations(fn)
        return fn
    if f.qual != "listener.BlackbirdListener.exitArrayvar":
        return fn
    roles = {}
    for n in ast.walk(fn):
        if isinstance(n, ast.Call) and u(n.func) in ("np.array", "np.asarray", "numpy.array") and n.args and isinstance(n.args[0], ast.Name) and any(k.arg == "dtype" for k in n.keywords):
            roles.setdefault("value", set()).add(n.args[0].id)
        if isinstance(n, ast.Call) and isinstance(n.func, ast.Attribute) and n.func.attr == "append" and isinstance(n.func.value, ast.Name) and len(n.args) == 1 \
                and isinstance(n.args[0], ast.Tuple) and len(n.args[0].elts) == 2 and "_expression(" in u(n.args[0].elts[1]):
            roles.setdefault("parameters", set()).add(n.func.value.id)
        if isinstance(n, ast.Assign) and len(n.targets) == 1 and isinstance(n.targets[0], ast.Subscript) and u(n.targets[0].value) == "_VAR" and isinstance(n.value, ast.Name):
            roles.setdefault("final_value", set()).add(n.value.id)
        if isinstance(n, ast.Assign) and len(n.targets) == 1 and isinstance(n.targets[0], ast.Name) and "ctx.shape().getText()" in u(n.value):
            roles.setdefault("shape", set()).add(n.targets[0].id)
    names = {x.id for x in ast.walk(fn) if isinstance(x, ast.Name)} | {a.arg for a in fn.args.posonlyargs + fn.args.args}
    ren = {}
    for canon, got in roles.items():
        if len(got) == 1:
            cur = next(iter(got))
            if cur != canon and canon not in names and cur not in ren:
                ren[cur] = canon
    if not ren or len(set(ren.values())) != len(ren):
        return fn
    fn = _Rename(ren, {}).visit(fn)
    ast.fix_missing_locations(fn)
    return fn


def canonical_callees(ix, f, fn):
    """a function the rules know by name that was renamed (the old name kept as an alias) is spelled with the known name where it is used"""
    ren = getattr(ix, "renamed", {}).get(f.mod)
    if not ren:
        return fn
    local = _stored_names(fn)
    use = {a: b for a, b in ren.items() if a not in local and b not in local}
    if not use:
        return fn
    return _Rename(use, {}).visit(fn)


def specialise_defaults(ix, f, fn):
    """a parameter with a default that every call site inside the package leaves at that default (omits it, or passes the very same constant)
    is read as that default: `parse(data, *, error_listener=BlackbirdErrorListener)` ... `error_listener()` -> `BlackbirdErrorListener()`.
    What the package itself does is then decided as before; other values are a caller's own affair."""
    a = fn.args
    pos_params = a.posonlyargs + a.args
    cand = {}
    for p_, d in zip(pos_params[len(pos_params) - len(a.defaults):], a.defaults):
        cand[p_.arg] = d
    for p_, d in zip(a.kwonlyargs, a.kw_defaults):
        if d is not None:
            cand[p_.arg] = d
    local = _stored_names(ast.Module(body=fn.body, type_ignores=[]))
    cand = {k: v for k, v in cand.items() if k not in local and k not in ("self", "cls", "cwd")
            and (isinstance(v, ast.Constant) and isinstance(v.value, (str, bool)) and v.value is not None or isinstance(v, (ast.Name, ast.Attribute)))}
    if not cand:
        return fn
    names = [x.arg for x in pos_params]
    # every call site in the package
    for q2, g in ix.funcs.items():
        if q2 != g.qual:
            continue
        for c in ast.walk(getattr(g, "orig", None) or g.node):
            if not isinstance(c, ast.Call):
                continue
            target = None
            if isinstance(c.func, ast.Name):
                target = ix.funcs.get(ix.resolve_name(g.mod, c.func.id))
            elif isinstance(c.func, ast.Attribute) and f.cls and c.func.attr == f.name:
                target = f
            if target is None or target.qual != f.qual:
                continue
            if any(isinstance(x, ast.Starred) for x in c.args) or any(k.arg is None for k in c.keywords):
                return fn
            offset = 1 if (f.cls and names[:1] in (["self"], ["cls"]) and isinstance(c.func, ast.Attribute)) else 0
            for i_, arg in enumerate(c.args):
                if i_ + offset < len(names) and names[i_ + offset] in cand and " ".join(u(arg).split()) != " ".join(u(cand[names[i_ + offset]]).split()):
                    del cand[names[i_ + offset]]
            for k in c.keywords:
                if k.arg in cand and " ".join(u(k.value).split()) != " ".join(u(cand[k.arg]).split()):
                    del cand[k.arg]
    if not cand:
        return fn
    body = [_Rename({}, cand).visit(b_) for b_ in fn.body]
    fn.body = body
    ast.fix_missing_locations(fn)
    return fn


def drop_default_arguments(ix, f, fn):
    """`g(x, sep=", ")` where ", " is the default of g's parameter `sep` is `g(x)`: a keyword argument that repeats the callee's (constant)
    default is dropped at the call site"""
    class D(ast.NodeTransformer):
        def visit_Call(self, node):
            self.generic_visit(node)
            if not node.keywords or not isinstance(node.func, ast.Name):
                return node
            g = ix.funcs.get(ix.resolve_name(f.mod, node.func.id))
            if g is None:
                return node
            ga = (getattr(g, "orig", None) or g.node).args
            defaults = {}
            pos_params = ga.posonlyargs + ga.args
            for p_, d in zip(pos_params[len(pos_params) - len(ga.defaults):], ga.defaults):
                defaults[p_.arg] = d
            for p_, d in zip(ga.kwonlyargs, ga.kw_defaults):
                if d is not None:
                    defaults[p_.arg] = d
            node.keywords = [k for k in node.keywords if not (k.arg in defaults and isinstance(defaults[k.arg], ast.Constant) and isinstance(k.value, ast.Constant)
                                                              and type(k.value.value) is type(defaults[k.arg].value) and k.value.value == defaults[k.arg].value)]
            return node
    return D().visit(fn)


def resolve_conditional_locals(fn, accessors=frozenset()):
    """`x = A if c else B` followed, in the same block, by `if c: S1 else: S2` (the same pure test - a parse-tree accessor chain - and no
    rebinding of x or of what c reads in between): x is A inside S1 and B inside S2"""
    def pure_test(e):
        while True:
            if isinstance(e, ast.Call) and not e.args and not e.keywords and isinstance(e.func, ast.Attribute):
                e = e.func.value
            elif isinstance(e, ast.Attribute):
                e = e.value
            else:
                break
        return isinstance(e, ast.Name)

    def fblock(stmts):
        for i, s_ in enumerate(stmts):
            if not (isinstance(s_, ast.Assign) and len(s_.targets) == 1 and isinstance(s_.targets[0], ast.Name) and isinstance(s_.value, ast.IfExp) and pure_test(s_.value.test)):
                continue
            x, c = s_.targets[0].id, " ".join(u(s_.value.test).split())
            for s2 in stmts[i + 1:]:
                if isinstance(s2, ast.If) and " ".join(u(s2.test).split()) == c:
                    s2.body = [_Rename({}, {x: s_.value.body}).visit(b_) for b_ in s2.body] if not (set().union(*[_stored_names(b_) for b_ in s2.body]) & {x}) else s2.body
                    s2.orelse = [_Rename({}, {x: s_.value.orelse}).visit(b_) for b_ in s2.orelse] if not (set().union(*[_stored_names(b_) for b_ in s2.orelse] or [set()]) & {x}) else s2.orelse
                    break
                if x in _stored_names(s2):
                    break
        return stmts
    fn = _map_blocks(fn, fblock)
    # a constant the test of an elif reduces to: `elif None:` / `if None:` never runs
    class N(ast.NodeTransformer):
        def visit_If(self, node):
            self.generic_visit(node)
            if isinstance(node.test, ast.Constant) and node.test.value is None:
                node.test = ast.copy_location(ast.Constant(value=False), node.test)
            return node
    fn = N().visit(fn)
    fn = drop_dead_branches(fn)
    ast.fix_missing_locations(fn)
    return fn


def guard_form(fn):
    """`if c: A else: B` with A leaving the block on every path (return / raise / continue / break) -> `if c: A` followed by B: the
    guard-clause spelling is the canonical one (an inlined helper or an elif ladder of returns reads like a sequence of guards)."""
    def leaves(stmts):
        for s in stmts:
            if isinstance(s, (ast.Raise, ast.Return, ast.Continue, ast.Break)):
                return True
            if isinstance(s, ast.If) and s.orelse and leaves(s.body) and leaves(s.orelse):
                return True
        return False

    def fblock(stmts):
        out = []
        for s in stmts:
            if isinstance(s, ast.If) and s.orelse and leaves(s.body):
                rest = s.orelse
                s.orelse = []
                out.append(s)
                out.extend(rest)
            else:
                out.append(s)
        return out
    # outermost first, so that a ladder unfolds completely: repeat innermost-first passes until stable
    for _ in range(40):
        before = sum(1 for n in ast.walk(fn) if isinstance(n, ast.If) and n.orelse)
        fn = _map_blocks(fn, fblock)
        if sum(1 for n in ast.walk(fn) if isinstance(n, ast.If) and n.orelse) == before:
            break
    return fn


def unroll_const_loops(fn, consts, single=frozenset(), limit=64):
    """`for a, b in TABLE: body` with TABLE a literal tuple/list (in place, or a module constant assigned once) and a body that does not
    rebind the loop names:
      - no break/continue: the body repeated with the row's literals substituted (exact: order and early returns are preserved);
      - search loop `for row in TABLE: if C: [S;] break` [else: E] followed by REST: `if C[row1]: S[row1]; REST[row1] elif ... else: E;
        REST[last row]` - the rest of the enclosing block becomes the continuation of the break, because it reads the loop names."""
    def rows_of(node):
        it = node.iter
        if isinstance(it, ast.Name) and it.id in consts and it.id in single:
            it = consts[it.id]
        # a constant dict display iterated in its (insertion = written) order: D.items() / D.keys() / D.values() / D
        view = None
        if isinstance(it, ast.Call) and isinstance(it.func, ast.Attribute) and it.func.attr in ("items", "keys", "values") and not it.args and not it.keywords:
            view, it = it.func.attr, it.func.value
            if isinstance(it, ast.Name) and it.id in consts and it.id in single:
                it = consts[it.id]
        if isinstance(it, ast.Dict) and all(k is not None for k in it.keys):
            view = view or "keys"
            if view == "items":
                it = ast.Tuple(elts=[ast.Tuple(elts=[k, v], ctx=ast.Load()) for k, v in zip(it.keys, it.values)], ctx=ast.Load())
            else:
                it = ast.Tuple(elts=list(it.keys if view == "keys" else it.values), ctx=ast.Load())
        elif view is not None:
            return None
        if not isinstance(it, (ast.Tuple, ast.List)) or len(it.elts) > limit or not it.elts:
            return None
        names = [node.target.id] if isinstance(node.target, ast.Name) else (
            [e.id for e in node.target.elts] if isinstance(node.target, ast.Tuple) and all(isinstance(e, ast.Name) for e in node.target.elts) else None)
        if names is None:
            return None
        for b_ in node.body + node.orelse:
            if _stored_names(b_) & set(names):
                return None
        rows = []
        local = _stored_names(fn)

        def constant_like(e):
            """a literal, or a reference to something of module level (np.exp, a class, a helper function) - never state of the call"""
            if isinstance(e, ast.Constant):
                return True
            if isinstance(e, ast.Name):
                return e.id not in local
            if isinstance(e, ast.Attribute):
                return constant_like(e.value)
            if isinstance(e, (ast.Tuple, ast.List)):
                return all(constant_like(x) for x in e.elts)
            if isinstance(e, ast.Lambda):
                return True
            return False
        if not all(constant_like(r_) for r_ in it.elts):
            return None
        for row in it.elts:
            if isinstance(row, ast.Starred):
                return None
            if isinstance(node.target, ast.Name):
                rows.append({names[0]: row})
            else:
                if not isinstance(row, (ast.Tuple, ast.List)) or len(row.elts) != len(names):
                    return None
                rows.append(dict(zip(names, row.elts)))
        return names, rows

    def subst(stmts, mapping):
        ren = _Rename({}, mapping)
        return [ren.visit(copy.deepcopy(x)) for x in stmts]

    def fblock(stmts):
        out = []
        for i, s in enumerate(stmts):
            if not isinstance(s, ast.For):
                out.append(s)
                continue
            r = rows_of(s)
            if r is None:
                out.append(s)
                continue
            names, rows = r
            inner = [n for n in ast.walk(s) if n is not s and isinstance(n, (ast.Break, ast.Continue, ast.For, ast.While))]
            if not inner and not s.orelse:
                for row in rows:
                    out.extend(subst(s.body, row))
                continue
            # search loop
            if len(s.body) == 1 and isinstance(s.body[0], ast.If) and not s.body[0].orelse and s.body[0].body and isinstance(s.body[0].body[-1], ast.Break) \
                    and len(inner) == 1 and inner[0] is s.body[0].body[-1]:
                test, found = s.body[0].test, s.body[0].body[:-1]
                rest = stmts[i + 1:]
                if len(rest) > 12 or any(_stored_names(x) & set(names) for x in rest):
                    out.append(s)
                    continue
                chain = list(s.orelse)
                if not _always_leaves(chain):
                    chain = chain + subst(rest, rows[-1])
                for row in reversed(rows):
                    t = subst([ast.Expr(value=test)], row)[0].value
                    chain = [ast.copy_location(ast.If(test=t, body=subst(found, row) + subst(rest, row) or [ast.Pass()], orelse=chain), s)]
                out.extend(chain)
                return out                     # the rest of the block has been absorbed
            out.append(s)
        return out
    return _map_blocks(fn, fblock)


def _is_boolean_test(e):
    """an expression that evaluates to True / False itself (so that `True and e` may be written `e`)"""
    return isinstance(e, ast.Compare) or (isinstance(e, ast.UnaryOp) and isinstance(e.op, ast.Not)) or (isinstance(e, ast.Call) and u(e.func) in ("isinstance", "issubclass", "callable", "bool", "any", "all", "hasattr")) \
        or (isinstance(e, ast.BoolOp) and all(_is_boolean_test(v) for v in e.values))


def drop_dead_branches(fn):
    """`if True: A else: B` -> A; `if False: A else: B` -> B (constant tests arise when a flag parameter of an inlined helper is a literal)"""
    def fblock(stmts):
        out = []
        for s_ in stmts:
            if isinstance(s_, ast.If) and isinstance(s_.test, ast.Constant) and isinstance(s_.test.value, bool):
                out.extend(s_.body if s_.test.value else s_.orelse)
            else:
                out.append(s_)
        return out or [ast.Pass()]
    return _map_blocks(fn, fblock)


class _Fold(ast.NodeTransformer):
    """constant folding that never changes meaning: getattr(x, "name") -> x.name; (lambda a: E)(v) -> E[a := v];
    f(*(a, b)) -> f(a, b); module-level string constants bound exactly once -> their literal"""

    def __init__(self, strconsts, classconsts=None):
        self.strconsts = strconsts
        self.classconsts = classconsts or {}       # module constants that are tuples of class references, for isinstance(x, NAME)

    def visit_Name(self, node):
        if isinstance(node.ctx, ast.Load) and node.id in self.strconsts:
            return ast.copy_location(ast.Constant(value=self.strconsts[node.id]), node)
        return node

    def visit_BoolOp(self, node):
        self.generic_visit(node)
        vals = []
        for v in node.values:
            if isinstance(v, ast.Constant) and isinstance(v.value, bool):
                if isinstance(node.op, ast.And) and v.value is False and not vals:
                    return ast.copy_location(ast.Constant(value=False), node)       # False and ... : nothing after it is evaluated
                if isinstance(node.op, ast.Or) and v.value is True and not vals:
                    return ast.copy_location(ast.Constant(value=True), node)
                if (isinstance(node.op, ast.And) and v.value is True) or (isinstance(node.op, ast.Or) and v.value is False):
                    if v is not node.values[-1]:
                        continue                                                        # a neutral operand that is not the result
            vals.append(v)
        if len(vals) == 1 and len(vals) != len(node.values) and not (isinstance(vals[0], ast.Constant)):
            return node if False else ast.copy_location(ast.BoolOp(op=node.op, values=vals + [ast.Constant(value=isinstance(node.op, ast.And))]), node) if False else vals[0] if _is_boolean_test(vals[0]) else node
        if len(vals) >= 2 and len(vals) != len(node.values):
            node.values = vals
        return node

    def visit_UnaryOp(self, node):
        self.generic_visit(node)
        if isinstance(node.op, ast.Not) and isinstance(node.operand, ast.Constant) and isinstance(node.operand.value, bool):
            return ast.copy_location(ast.Constant(value=not node.operand.value), node)
        return node

    def visit_BinOp(self, node):
        self.generic_visit(node)
        if isinstance(node.op, ast.Add) and isinstance(node.left, ast.Constant) and isinstance(node.right, ast.Constant) \
                and isinstance(node.left.value, str) and isinstance(node.right.value, str):
            return ast.copy_location(ast.Constant(value=node.left.value + node.right.value), node)
        return node

    def visit_Call(self, node):
        self.generic_visit(node)
        if isinstance(node.func, ast.Name) and node.func.id == "getattr" and len(node.args) == 2 and isinstance(node.args[1], ast.Constant) \
                and isinstance(node.args[1].value, str) and node.args[1].value.isidentifier() and not node.keywords:
            return ast.copy_location(ast.Attribute(value=node.args[0], attr=node.args[1].value, ctx=ast.Load()), node)
        if isinstance(node.func, ast.Name) and node.func.id in ("isinstance", "issubclass") and len(node.args) == 2 and isinstance(node.args[1], ast.Name) \
                and node.args[1].id in self.classconsts:
            node.args[1] = copy.deepcopy(self.classconsts[node.args[1].id])
        if any(isinstance(a_, ast.Starred) and isinstance(a_.value, (ast.Tuple, ast.List)) for a_ in node.args):
            args = []
            for a_ in node.args:
                if isinstance(a_, ast.Starred) and isinstance(a_.value, (ast.Tuple, ast.List)):
                    args.extend(a_.value.elts)
                else:
                    args.append(a_)
            node.args = args
        if isinstance(node.func, ast.Lambda) and not node.keywords and not any(isinstance(a_, ast.Starred) for a_ in node.args):
            la = node.func.args
            ps = [x.arg for x in la.posonlyargs + la.args]
            if len(ps) == len(node.args) and not la.vararg and not la.kwarg and not la.kwonlyargs and not la.defaults:
                return ast.copy_location(_Rename({}, dict(zip(ps, node.args))).visit(copy.deepcopy(node.func.body)), node)
        return node


def desugar_walrus(fn):
    """`if (x := E): ...` / `y = f((x := E))` / `return (x := E)`: the binding is hoisted in front of the statement when the assignment
    expression is evaluated unconditionally and before anything else that can have an effect (only names, constants and attribute loads
    precede it).  `while` tests and comprehensions keep their assignment expressions."""
    from .ts import postorder

    def hoistable(stmt, header):
        for n in postorder(header):
            if isinstance(n, ast.NamedExpr) and isinstance(n.target, ast.Name):
                # nothing effectful may be evaluated before the value of the assignment expression
                inner = {id(x) for x in ast.walk(n)}
                ok = True
                for m in postorder(header):
                    if id(m) in inner:
                        break
                    if not isinstance(m, (ast.Name, ast.Constant, ast.Attribute, ast.expr_context)):
                        ok = False
                        break
                conditional = False
                for sc in ast.walk(header):
                    if isinstance(sc, (ast.Lambda, ast.ListComp, ast.SetComp, ast.DictComp, ast.GeneratorExp)) and any(x is n for x in ast.walk(sc)):
                        conditional = True
                    if isinstance(sc, ast.BoolOp) and any(any(x is n for x in ast.walk(v)) for v in sc.values[1:]):
                        conditional = True
                    if isinstance(sc, ast.IfExp) and any(any(x is n for x in ast.walk(v)) for v in (sc.body, sc.orelse)):
                        conditional = True
                if ok and not conditional:
                    return n
                return None
        return None

    def fblock(stmts):
        out = []
        for s in stmts:
            for _ in range(4):
                header = s.test if isinstance(s, ast.If) else (s.value if isinstance(s, (ast.Assign, ast.Expr, ast.Return, ast.AugAssign)) and getattr(s, "value", None) is not None else None)
                if header is None:
                    break
                n = hoistable(s, header)
                if n is None:
                    break
                out.append(ast.copy_location(ast.Assign(targets=[ast.Name(id=n.target.id, ctx=ast.Store())], value=n.value), s))
                repl = ast.copy_location(ast.Name(id=n.target.id, ctx=ast.Load()), n)
                if header is n:
                    if isinstance(s, ast.If):
                        s.test = repl
                    else:
                        s.value = repl
                else:
                    _ReplaceNode(n, repl).visit(header)
            out.append(s)
        return out
    return _map_blocks(fn, fblock)


def dispatch_comprehensions(fn):
    """`X = [A if c else B for t in IT]` (a type dispatch written inside a comprehension)  ->  `X = []; for t in IT: if c: X.append(A) else:
    X.append(B)`; `map(f, xs)` with one iterable -> `(f(m) for m in xs)`.  Both keep elements and order."""
    def pure_elt(e, var):
        """an element expression that only converts / reads the loop variable (safe to evaluate more than once)"""
        if isinstance(e, ast.Name):
            return e.id == var
        if isinstance(e, ast.Call) and isinstance(e.func, ast.Name) and e.func.id in ("str", "int", "float", "repr", "tuple", "len", "bool") and len(e.args) == 1 and not e.keywords:
            return pure_elt(e.args[0], var)
        if isinstance(e, ast.Attribute):
            return pure_elt(e.value, var)
        return False

    def flatten(comp):
        """{K(n): V(n) for n in (E(m) for m in xs)} -> {K(E(m)): V(E(m)) for m in xs}  (one generator each, no filters, E a pure conversion)"""
        if len(comp.generators) != 1:
            return comp
        g = comp.generators[0]
        inner = g.iter
        if not (isinstance(inner, (ast.GeneratorExp, ast.ListComp)) and len(inner.generators) == 1 and not inner.generators[0].ifs and not g.ifs and isinstance(g.target, ast.Name)
                and isinstance(inner.generators[0].target, ast.Name) and pure_elt(inner.elt, inner.generators[0].target.id)):
            return comp
        ig = inner.generators[0]
        outer_parts = [comp.key, comp.value] if isinstance(comp, ast.DictComp) else [comp.elt]
        taken = {x.id for e_ in outer_parts for x in ast.walk(e_) if isinstance(x, ast.Name)} - {g.target.id}
        if ig.target.id in taken:
            return comp             # the inner loop variable would capture a name of the outer element
        sub = _Rename({}, {g.target.id: inner.elt})
        if isinstance(comp, ast.DictComp):
            comp.key, comp.value = sub.visit(comp.key), sub.visit(comp.value)
        else:
            comp.elt = sub.visit(comp.elt)
        comp.generators = [ast.comprehension(target=ig.target, iter=ig.iter, ifs=[], is_async=0)]
        return comp

    class M(ast.NodeTransformer):
        def visit_DictComp(self, node):
            self.generic_visit(node)
            return flatten(node)

        def visit_ListComp(self, node):
            self.generic_visit(node)
            return flatten(node)

        def visit_SetComp(self, node):
            self.generic_visit(node)
            return flatten(node)

        def visit_Call(self, node):
            self.generic_visit(node)
            if isinstance(node.func, ast.Name) and node.func.id == "map" and len(node.args) == 2 and not node.keywords and not isinstance(node.args[1], ast.Starred) \
                    and isinstance(node.args[0], (ast.Name, ast.Attribute, ast.Lambda)):
                var = ast.Name(id="m", ctx=ast.Load())
                call = ast.Call(func=node.args[0], args=[var], keywords=[])
                return ast.copy_location(ast.GeneratorExp(elt=call, generators=[ast.comprehension(target=ast.Name(id="m", ctx=ast.Store()), iter=node.args[1], ifs=[], is_async=0)]), node)
            # filter(lambda x: C, xs) -> (x for x in xs if C)
            if isinstance(node.func, ast.Name) and node.func.id == "filter" and len(node.args) == 2 and not node.keywords and isinstance(node.args[0], ast.Lambda) \
                    and len(node.args[0].args.args) == 1 and not node.args[0].args.defaults and not node.args[0].args.vararg:
                v = node.args[0].args.args[0].arg
                return ast.copy_location(ast.GeneratorExp(elt=ast.Name(id=v, ctx=ast.Load()), generators=[
                    ast.comprehension(target=ast.Name(id=v, ctx=ast.Store()), iter=node.args[1], ifs=[node.args[0].body], is_async=0)]), node)
            # list(<generator expression>) -> the list comprehension
            if isinstance(node.func, ast.Name) and node.func.id == "list" and len(node.args) == 1 and not node.keywords and isinstance(node.args[0], ast.GeneratorExp):
                return ast.copy_location(ast.ListComp(elt=node.args[0].elt, generators=node.args[0].generators), node)
            return node

    def ladder(acc, e, at):
        if isinstance(e, ast.IfExp):
            return [ast.copy_location(ast.If(test=e.test, body=ladder(acc, e.body, at), orelse=ladder(acc, e.orelse, at)), at)]
        return [ast.copy_location(ast.Expr(value=ast.Call(func=ast.Attribute(value=ast.Name(id=acc, ctx=ast.Load()), attr="append", ctx=ast.Load()), args=[e], keywords=[])), at)]

    def fblock(stmts):
        out = []
        for s in stmts:
            if isinstance(s, ast.Assign) and len(s.targets) == 1 and isinstance(s.targets[0], ast.Name) and isinstance(s.value, ast.ListComp) and len(s.value.generators) == 1 \
                    and not s.value.generators[0].ifs and isinstance(s.value.elt, ast.IfExp) and not any(isinstance(x, ast.Name) and x.id == s.targets[0].id for x in ast.walk(s.value)):
                g = s.value.generators[0]
                out.append(ast.copy_location(ast.Assign(targets=[ast.Name(id=s.targets[0].id, ctx=ast.Store())], value=ast.List(elts=[], ctx=ast.Load())), s))
                out.append(ast.copy_location(ast.For(target=g.target, iter=g.iter, body=ladder(s.targets[0].id, s.value.elt, s), orelse=[]), s))
                continue
            out.append(s)
        return out
    # the generated variable of map() must not capture a local: only when no `m` exists (filter / list forms introduce no name)
    has_m = any(isinstance(n, ast.Name) and n.id == "m" for n in ast.walk(fn))
    has_map = any(isinstance(n, ast.Call) and isinstance(n.func, ast.Name) and n.func.id == "map" for n in ast.walk(fn))
    if not (has_m and has_map):
        fn = M().visit(fn)
    fn = _map_blocks(fn, fblock)
    return fn


def split_unpacking(fn):
    """`a, b = (E(x) for x in Y)` (or the list form; one generator, no filter)  ->  `_u1, _u2 = Y; a = E(_u1); b = E(_u2)`"""
    def fblock(stmts):
        out = []
        for s in stmts:
            if isinstance(s, ast.Assign) and len(s.targets) == 1 and isinstance(s.targets[0], ast.Tuple) and isinstance(s.value, (ast.GeneratorExp, ast.ListComp)) \
                    and len(s.value.generators) == 1 and not s.value.generators[0].ifs and isinstance(s.value.generators[0].target, ast.Name) \
                    and all(isinstance(t, ast.Name) for t in s.targets[0].elts) and not s.value.generators[0].is_async:
                g = s.value.generators[0]
                _TMP[0] += 1
                tmps = ["_u%d_%d" % (_TMP[0], i) for i in range(len(s.targets[0].elts))]
                out.append(ast.copy_location(ast.Assign(targets=[ast.Tuple(elts=[ast.Name(id=t, ctx=ast.Store()) for t in tmps], ctx=ast.Store())], value=g.iter), s))
                for t, tmp in zip(s.targets[0].elts, tmps):
                    val = _Rename({}, {g.target.id: ast.Name(id=tmp, ctx=ast.Load())}).visit(copy.deepcopy(s.value.elt))
                    out.append(ast.copy_location(ast.Assign(targets=[copy.deepcopy(t)], value=val), s))
                continue
            out.append(s)
        return out
    return _map_blocks(fn, fblock)


def materialise_generators(ix, f, fn, keep):
    """`sep.join(H(v) for v in xs)` where H is an unknown helper with several returns (so it cannot be substituted as an expression):
    the elements are collected by an explicit loop placed before the statement - `_acc = []; for v in xs: _acc.append(H(v))` - so
    that the statement inliner can expand H per element.  Only when nothing but names / constants / attribute loads is evaluated in the
    statement before the join's argument, so that moving the evaluation forward changes nothing."""
    from .ts import postorder

    def candidate(s):
        for n in ast.walk(s):
            if isinstance(n, ast.Call) and isinstance(n.func, ast.Attribute) and n.func.attr == "join" and len(n.args) == 1 and isinstance(n.args[0], (ast.GeneratorExp, ast.ListComp)):
                g = n.args[0]
                if len(g.generators) != 1 or g.generators[0].ifs or g.generators[0].is_async:
                    continue
                calls = [c for c in ast.walk(g.elt) if isinstance(c, ast.Call) and _resolve_helper(ix, f, c, keep) is not None]
                multi = [c for c in calls if single_return((getattr(_resolve_helper(ix, f, c, keep), "orig", None) or _resolve_helper(ix, f, c, keep).node))[0] is None]
                # closures defined at the top of this function are helpers like any other
                closures = {d_.name: d_ for d_ in fn.body if isinstance(d_, ast.FunctionDef)}
                multi += [c for c in ast.walk(g.elt) if isinstance(c, ast.Call) and isinstance(c.func, ast.Name) and c.func.id in closures and single_return(closures[c.func.id])[0] is None]
                if not multi:
                    continue
                for x in postorder(s):
                    if x is g:
                        return n, g
                    if any(x is y for y in ast.walk(g)):
                        continue
                    if not isinstance(x, (ast.Name, ast.Constant, ast.Attribute, ast.expr_context, ast.operator, ast.unaryop, ast.cmpop, ast.boolop)):
                        break
        return None

    def generator_helper(call):
        """the package generator function a call refers to (its body yields as statements only and returns no value)"""
        if not isinstance(call, ast.Call):
            return None
        g = None
        if isinstance(call.func, ast.Name):
            g = ix.funcs.get(ix.resolve_name(f.mod, call.func.id))
        elif isinstance(call.func, ast.Attribute) and isinstance(call.func.value, ast.Name) and call.func.value.id in ("self", "cls") and f.cls:
            g = ix.funcs.get("%s.%s" % (f.cls, call.func.attr))
        if g is None or g.qual == f.qual or g.qual in keep:
            return None
        gnode = getattr(g, "orig", None) or g.node
        if any(_decorator_name(d) not in ("staticmethod", "classmethod") for d in gnode.decorator_list):
            return None
        ys = [n for n in ast.walk(gnode) if isinstance(n, (ast.Yield, ast.YieldFrom))]
        if not ys:
            return None
        stmt_yields = {id(n.value) for n in ast.walk(gnode) if isinstance(n, ast.Expr) and isinstance(n.value, (ast.Yield, ast.YieldFrom))}
        if any(id(y) not in stmt_yields for y in ys) or any(isinstance(n, ast.Return) and n.value is not None for n in ast.walk(gnode)) \
                or any(isinstance(n, (ast.Global, ast.Nonlocal, ast.Await, ast.Try)) for n in ast.walk(gnode)) \
                or any(isinstance(n, ast.Return) for n in ast.walk(gnode)):
            return None
        return g

    def gen_candidate(s):
        """a call of a generator helper consumed at once - sep.join(G(..)) / list(G(..)) / tuple(G(..)) / sorted(G(..)) - with nothing
        effectful evaluated in the statement before it"""
        for n in ast.walk(s):
            consumer = isinstance(n, ast.Call) and len(n.args) >= 1 and ((isinstance(n.func, ast.Attribute) and n.func.attr == "join" and len(n.args) == 1)
                                                                         or (isinstance(n.func, ast.Name) and n.func.id in ("list", "tuple", "sorted") and len(n.args) == 1))
            if consumer and generator_helper(n.args[0]) is not None:
                gcall = n.args[0]
                for x in postorder(s):
                    if x is gcall:
                        return n, gcall
                    if any(x is y for y in ast.walk(gcall)):
                        continue
                    if not isinstance(x, (ast.Name, ast.Constant, ast.Attribute, ast.expr_context, ast.operator, ast.unaryop, ast.cmpop, ast.boolop)):
                        break
        return None

    def expand_generator(s, consumer, gcall):
        g = generator_helper(gcall)
        gnode = copy.deepcopy(getattr(g, "orig", None) or g.node)
        b = _bind_args(g, gnode, gcall)
        if b is None:
            return None
        params, mapping = b
        body = [x for x in gnode.body if not (isinstance(x, ast.Expr) and isinstance(x.value, ast.Constant))]
        stores = set()
        for x in body:
            stores |= _stored_names(x)
        _TMP[0] += 1
        acc = "_acc%d" % _TMP[0]
        caller = _stored_names(fn) | {n.id for n in ast.walk(fn) if isinstance(n, ast.Name)}
        names, exprs, pre = {}, {}, []
        for p_ in params:
            if p_ in stores:
                names[p_] = "_g%d_%s" % (_TMP[0], p_)
                pre.append(ast.Assign(targets=[ast.Name(id=names[p_], ctx=ast.Store())], value=copy.deepcopy(mapping[p_])))
            else:
                exprs[p_] = mapping[p_]
        for nm in stores - set(params):
            if nm in caller:
                names[nm] = "_g%d_%s" % (_TMP[0], nm)
        ren = _Rename(names, exprs)
        body = [ren.visit(x) for x in body]

        class Y(ast.NodeTransformer):
            def visit_Expr(self, node):
                if isinstance(node.value, ast.Yield):
                    v = node.value.value if node.value.value is not None else ast.Constant(value=None)
                    return ast.copy_location(ast.Expr(value=ast.Call(func=ast.Attribute(value=ast.Name(id=acc, ctx=ast.Load()), attr="append", ctx=ast.Load()), args=[v], keywords=[])), node)
                if isinstance(node.value, ast.YieldFrom):
                    return ast.copy_location(ast.Expr(value=ast.Call(func=ast.Attribute(value=ast.Name(id=acc, ctx=ast.Load()), attr="extend", ctx=ast.Load()), args=[node.value.value], keywords=[])), node)
                return node
        body = [Y().visit(x) for x in body]
        consumer.args[0] = ast.Name(id=acc, ctx=ast.Load())
        res = [ast.Assign(targets=[ast.Name(id=acc, ctx=ast.Store())], value=ast.List(elts=[], ctx=ast.Load()))] + pre + body + [s]
        for x in res:
            ast.copy_location(x, s)
            ast.fix_missing_locations(x)
        return res

    def fblock(stmts):
        out = []
        for s in stmts:
            gc = gen_candidate(s) if isinstance(s, (ast.Return, ast.Assign, ast.Expr)) else None
            if gc is not None:
                r = expand_generator(s, *gc)
                if r is not None:
                    out.extend(r)
                    continue
            c = candidate(s) if isinstance(s, (ast.Return, ast.Assign, ast.Expr)) else None
            if c is None:
                out.append(s)
                continue
            call, g = c
            _TMP[0] += 1
            acc = "_acc%d" % _TMP[0]
            gen = g.generators[0]
            out.append(ast.copy_location(ast.Assign(targets=[ast.Name(id=acc, ctx=ast.Store())], value=ast.List(elts=[], ctx=ast.Load())), s))
            app = ast.Expr(value=ast.Call(func=ast.Attribute(value=ast.Name(id=acc, ctx=ast.Load()), attr="append", ctx=ast.Load()), args=[g.elt], keywords=[]))
            out.append(ast.copy_location(ast.For(target=gen.target, iter=gen.iter, body=[ast.copy_location(app, s)], orelse=[]), s))
            call.args[0] = ast.Name(id=acc, ctx=ast.Load())
            out.append(s)
        return out
    return _map_blocks(fn, fblock)


def expand_maps(ix, f, fn, keep):
    """`T = [H(x) for x in S]` / `T = {k: H(v) for k, v in S}` whose element calls a helper of the package that the rules do not know by name
    (so that it has to be read where it is used) become the explicit loop - `_c = []; for x in S: _c.append(H(x)); T = _c` - which the statement
    inliner can expand per element; `np.vectorize(H, otypes=[object])(A)` becomes the element loop over np.ndindex(A.shape).  Elements,
    order and the moment T is bound are unchanged (T is bound after the whole collection has been built, as by the comprehension)."""
    def helper_call(e):
        return any(isinstance(c, ast.Call) and _resolve_helper(ix, f, c, keep) is not None for c in ast.walk(e))

    def fblock(stmts):
        out = []
        for s in stmts:
            v = s.value if isinstance(s, ast.Assign) and len(s.targets) == 1 else None
            if isinstance(v, (ast.ListComp, ast.DictComp)) and len(v.generators) == 1 and not v.generators[0].is_async and helper_call(v.elt if isinstance(v, ast.ListComp) else v.value):
                g = v.generators[0]
                _TMP[0] += 1
                acc = "_c%d" % _TMP[0]
                if isinstance(v, ast.ListComp):
                    init = ast.List(elts=[], ctx=ast.Load())
                    put = ast.Expr(value=ast.Call(func=ast.Attribute(value=ast.Name(id=acc, ctx=ast.Load()), attr="append", ctx=ast.Load()), args=[v.elt], keywords=[]))
                else:
                    init = ast.Dict(keys=[], values=[])
                    put = ast.Assign(targets=[ast.Subscript(value=ast.Name(id=acc, ctx=ast.Load()), slice=v.key, ctx=ast.Store())], value=v.value)
                body = [ast.copy_location(put, s)]
                for c in reversed(g.ifs):
                    body = [ast.copy_location(ast.If(test=c, body=body, orelse=[]), s)]
                out.append(ast.copy_location(ast.Assign(targets=[ast.Name(id=acc, ctx=ast.Store())], value=init), s))
                out.append(ast.copy_location(ast.For(target=g.target, iter=g.iter, body=body, orelse=[]), s))
                s.value = ast.Name(id=acc, ctx=ast.Load())
                out.append(s)
                continue
            # X.extend(<comprehension>) whose element calls a helper: the loop of appends (elements are produced and added one by one either way)
            if isinstance(s, ast.Expr) and isinstance(s.value, ast.Call) and isinstance(s.value.func, ast.Attribute) and s.value.func.attr == "extend" and len(s.value.args) == 1 \
                    and not s.value.keywords and isinstance(s.value.args[0], (ast.GeneratorExp, ast.ListComp)) and len(s.value.args[0].generators) == 1 \
                    and not s.value.args[0].generators[0].is_async and isinstance(s.value.func.value, (ast.Name, ast.Attribute)) and helper_call(s.value.args[0].elt):
                comp = s.value.args[0]
                g = comp.generators[0]
                put = ast.Expr(value=ast.Call(func=ast.Attribute(value=s.value.func.value, attr="append", ctx=ast.Load()), args=[comp.elt], keywords=[]))
                body = [ast.copy_location(put, s)]
                for c in reversed(g.ifs):
                    body = [ast.copy_location(ast.If(test=c, body=body, orelse=[]), s)]
                out.append(ast.copy_location(ast.For(target=g.target, iter=g.iter, body=body, orelse=[]), s))
                continue
            # np.vectorize(H, otypes=[object])(A)
            if isinstance(v, ast.Call) and isinstance(v.func, ast.Call) and u(v.func.func) in ("np.vectorize", "numpy.vectorize") and len(v.args) == 1 and not v.keywords \
                    and isinstance(v.args[0], (ast.Name, ast.Attribute, ast.Subscript)) and len(v.func.args) == 1 and isinstance(v.func.args[0], (ast.Name, ast.Attribute)) \
                    and len(v.func.keywords) == 1 and v.func.keywords[0].arg == "otypes" and " ".join(u(v.func.keywords[0].value).split()) in ("[object]", "(object,)", "'O'", "[np.object_]"):
                _TMP[0] += 1
                acc, idx = "_c%d" % _TMP[0], "_i%d" % _TMP[0]
                A = v.args[0]
                out.append(ast.copy_location(ast.Assign(targets=[ast.Name(id=acc, ctx=ast.Store())], value=ast.parse("np.empty(%s.shape, dtype=object)" % u(A), mode="eval").body), s))
                elem = ast.Subscript(value=copy.deepcopy(A), slice=ast.Name(id=idx, ctx=ast.Load()), ctx=ast.Load())
                put = ast.Assign(targets=[ast.Subscript(value=ast.Name(id=acc, ctx=ast.Load()), slice=ast.Name(id=idx, ctx=ast.Load()), ctx=ast.Store())],
                                 value=ast.Call(func=v.func.args[0], args=[elem], keywords=[]))
                out.append(ast.copy_location(ast.For(target=ast.Name(id=idx, ctx=ast.Store()), iter=ast.parse("np.ndindex(%s.shape)" % u(A), mode="eval").body, body=[ast.copy_location(put, s)], orelse=[]), s))
                s.value = ast.Name(id=acc, ctx=ast.Load())
                out.append(s)
                continue
            out.append(s)
        return out
    return _map_blocks(fn, fblock)


def record_classes(ix):
    """qual -> field names, for the record types of the package: classes deriving from typing.NamedTuple, @dataclass classes without a
    hand-written __init__ / __post_init__, and names bound at module level to collections.namedtuple(...)"""
    cache = ix.__dict__.setdefault("_records", None)
    if cache is not None:
        return cache
    out = {}
    for cq, c in ix.classes.items():
        bases = [u(b) for b in c.bases]
        decos = [_decorator_name(d) for d in c.decorator_list]
        is_nt = any(b in ("NamedTuple", "typing.NamedTuple") for b in bases)
        is_dc = any(d in ("dataclass", "dataclasses.dataclass") for d in decos)
        if not (is_nt or is_dc):
            continue
        if any(isinstance(n, ast.FunctionDef) and n.name in ("__init__", "__post_init__", "__new__", "__getattr__", "__getattribute__") for n in c.body):
            continue
        fields = [n.target.id for n in c.body if isinstance(n, ast.AnnAssign) and isinstance(n.target, ast.Name) and "ClassVar" not in u(n.annotation)]
        props = {n.name for n in c.body if isinstance(n, ast.FunctionDef)}
        if fields and not (set(fields) & props):
            out[cq] = fields
            if props:
                ix.__dict__.setdefault("_record_methods", {})[cq] = {n.name: n for n in c.body if isinstance(n, ast.FunctionDef)}
    for m in ix.mods:
        for name, v in ix.module_globals(m).items():
            if isinstance(v, ast.Call) and u(v.func) in ("namedtuple", "collections.namedtuple") and len(v.args) == 2:
                spec = v.args[1]
                if isinstance(spec, ast.Constant) and isinstance(spec.value, str):
                    out["%s.%s" % (m, name)] = spec.value.replace(",", " ").split()
                elif isinstance(spec, (ast.List, ast.Tuple)) and all(isinstance(e, ast.Constant) and isinstance(e.value, str) for e in spec.elts):
                    out["%s.%s" % (m, name)] = [e.value for e in spec.elts]
    ix.__dict__["_records"] = out
    return out


def fold_records(ix, f, fn):
    """record types are read through: `C(a, b).x` is `a`; a loop `for r in [C(a1, b1), C(a2, b2)]` whose body uses r only as r.<field> is the
    loop `for (x, y) in [(a1, b1), (a2, b2)]`; a list of records bound once to a local and used only as that loop's iterable is put in place."""
    recs = record_classes(ix)
    if not recs:
        return fn

    def fields_of(call):
        if not isinstance(call, ast.Call) or not isinstance(call.func, ast.Name):
            return None
        q = ix.resolve_name(f.mod, call.func.id)
        q = q if q in recs else ("%s.%s" % (f.mod, call.func.id) if "%s.%s" % (f.mod, call.func.id) in recs else None)
        if q is None:
            imp = ix.imports.get(f.mod, {}).get(call.func.id)
            if imp and imp[2] >= 1 and "%s.%s" % (imp[0], imp[1]) in recs:
                q = "%s.%s" % (imp[0], imp[1])
        if q is None or any(isinstance(a, ast.Starred) for a in call.args) or any(k.arg is None for k in call.keywords):
            return None
        fl = recs[q]
        vals = dict(zip(fl, call.args))
        for k in call.keywords:
            vals[k.arg] = k.value
        return [(x, vals[x]) for x in fl] if set(vals) == set(fl) and len(call.args) <= len(fl) else None

    class A(ast.NodeTransformer):
        def visit_Attribute(self, node):
            self.generic_visit(node)
            fv = fields_of(node.value) if isinstance(node.ctx, ast.Load) else None
            if fv is not None and node.attr in dict(fv):
                return ast.copy_location(dict(fv)[node.attr], node)
            return node
    fn = A().visit(fn)
    # a local bound once to a record and used only field by field: the fields become locals of their own (`e = C([], [])` ... `e.rows.append(r)`
    # -> `e_rows = []` ... `e_rows.append(r)`); exact, because the record object itself goes nowhere
    def sra_block(stmts):
        out = []
        for st_ in stmts:
            fv = fields_of(st_.value) if isinstance(st_, ast.Assign) and len(st_.targets) == 1 and isinstance(st_.targets[0], ast.Name) else None
            if fv is not None and record_qual_(st_.value) not in ix.__dict__.get("_record_methods", {}):
                x = st_.targets[0].id
                stores = [n for n in ast.walk(fn) if isinstance(n, ast.Name) and n.id == x and isinstance(n.ctx, (ast.Store, ast.Del))]
                loads = [n for n in ast.walk(fn) if isinstance(n, ast.Name) and n.id == x and isinstance(n.ctx, ast.Load)]
                attrs = [n for n in ast.walk(fn) if isinstance(n, ast.Attribute) and isinstance(n.value, ast.Name) and n.value.id == x and isinstance(n.ctx, ast.Load) and n.attr in dict(fv)]
                if len(stores) == 1 and loads and len(loads) == len(attrs):
                    taken = {n.id for n in ast.walk(fn) if isinstance(n, ast.Name)}
                    new = {fld: ("%s_%s" % (x, fld) if "%s_%s" % (x, fld) not in taken else "_%s_%s" % (x, fld)) for fld, _ in fv}
                    sra[x] = new
                    for fld, v in fv:
                        out.append(ast.copy_location(ast.Assign(targets=[ast.Name(id=new[fld], ctx=ast.Store())], value=v), st_))
                    continue
            out.append(st_)
        return out

    def record_qual_(call):
        if not isinstance(call, ast.Call) or not isinstance(call.func, ast.Name):
            return None
        return ix.resolve_name(f.mod, call.func.id) or "%s.%s" % (f.mod, call.func.id)
    sra = {}
    fn = _map_blocks(fn, sra_block)
    if sra:
        class SR(ast.NodeTransformer):
            def visit_Attribute(self, node):
                if isinstance(node.value, ast.Name) and node.value.id in sra and node.attr in sra[node.value.id] and isinstance(node.ctx, ast.Load):
                    return ast.copy_location(ast.Name(id=sra[node.value.id][node.attr], ctx=ast.Load()), node)
                return self.generic_visit(node)
        fn = SR().visit(fn)
        ast.fix_missing_locations(fn)
    # a local bound once, at the top level of the function, to a record built from names that are not rebound afterwards: its fields are those
    # names, and a call of one of its single-expression methods is that expression with the fields in place of self.<field>
    methods_of = ix.__dict__.get("_record_methods", {})

    def record_qual(call):
        if not isinstance(call, ast.Call) or not isinstance(call.func, ast.Name):
            return None
        q = ix.resolve_name(f.mod, call.func.id) or "%s.%s" % (f.mod, call.func.id)
        return q if q in recs else None
    instances = {}
    for st_ in fn.body:
        if isinstance(st_, ast.Assign) and len(st_.targets) == 1 and isinstance(st_.targets[0], ast.Name) and fields_of(st_.value) is not None \
                and all(isinstance(v, (ast.Name, ast.Constant, ast.Attribute)) for _, v in fields_of(st_.value)):
            nm = st_.targets[0].id
            stores = [n for n in ast.walk(fn) if isinstance(n, ast.Name) and n.id == nm and isinstance(n.ctx, (ast.Store, ast.Del))]
            bound = {x.id for _, v in fields_of(st_.value) for x in ast.walk(v) if isinstance(x, ast.Name)}
            later = set()
            seen_ = False
            for s2 in fn.body:
                if s2 is st_:
                    seen_ = True
                    continue
                if seen_:
                    later |= _stored_names(s2)
            if len(stores) == 1 and not (bound & later):
                instances[nm] = (record_qual(st_.value), dict(fields_of(st_.value)))
    if instances:
        class I(ast.NodeTransformer):
            def visit_Call(self, node):
                self.generic_visit(node)
                if isinstance(node.func, ast.Attribute) and isinstance(node.func.value, ast.Name) and node.func.value.id in instances:
                    q, fv = instances[node.func.value.id]
                    m = methods_of.get(q, {}).get(node.func.attr)
                    if m is not None and not any(_decorator_name(d) for d in m.decorator_list):
                        ret, binds = single_return(m)
                        ps = [a.arg for a in m.args.posonlyargs + m.args.args]
                        if ret is not None and not binds and ps and len(ps) - 1 == len(node.args) and not node.keywords and not m.args.vararg and not m.args.kwarg:
                            selfname = ps[0]

                            class S(ast.NodeTransformer):
                                def visit_Attribute(self, a):
                                    self.generic_visit(a)
                                    if isinstance(a.value, ast.Name) and a.value.id == selfname and a.attr in fv and isinstance(a.ctx, ast.Load):
                                        return copy.deepcopy(fv[a.attr])
                                    return a
                            body = S().visit(copy.deepcopy(ret))
                            if not any(isinstance(x, ast.Name) and x.id == selfname for x in ast.walk(body)):
                                return ast.copy_location(_Rename({}, dict(zip(ps[1:], node.args))).visit(body), node)
                return node

            def visit_Attribute(self, node):
                self.generic_visit(node)
                if isinstance(node.ctx, ast.Load) and isinstance(node.value, ast.Name) and node.value.id in instances and node.attr in instances[node.value.id][1]:
                    return ast.copy_location(copy.deepcopy(instances[node.value.id][1][node.attr]), node)
                return node
        fn = I().visit(fn)
    # local lists of records used once, as a loop's iterable
    counts = {}
    for n in ast.walk(fn):
        if isinstance(n, ast.Name):
            counts.setdefault(n.id, [0, 0])[0 if isinstance(n.ctx, ast.Load) else 1] += 1

    def fblock(stmts):
        out = []
        pending = {}
        for s in stmts:
            if isinstance(s, ast.Assign) and len(s.targets) == 1 and isinstance(s.targets[0], ast.Name) and isinstance(s.value, (ast.List, ast.Tuple)) and s.value.elts \
                    and all(fields_of(e) is not None for e in s.value.elts) and counts.get(s.targets[0].id) == [1, 1]:
                pending[s.targets[0].id] = s
                out.append(s)
                continue
            if isinstance(s, ast.For) and isinstance(s.iter, ast.Name) and s.iter.id in pending and pending[s.iter.id] in out:
                src = pending.pop(s.iter.id)
                out.remove(src)
                s.iter = src.value
            if isinstance(s, ast.For) and isinstance(s.target, ast.Name) and isinstance(s.iter, (ast.List, ast.Tuple)) and s.iter.elts and all(fields_of(e) is not None for e in s.iter.elts):
                rows = [fields_of(e) for e in s.iter.elts]
                names = [x for x, _ in rows[0]]
                r = s.target.id
                uses = [n for b_ in s.body + s.orelse for n in ast.walk(b_) if isinstance(n, ast.Name) and n.id == r]
                attrs = [n for b_ in s.body + s.orelse for n in ast.walk(b_) if isinstance(n, ast.Attribute) and isinstance(n.value, ast.Name) and n.value.id == r and isinstance(n.ctx, ast.Load)]
                taken = _stored_names(fn) | {n.id for n in ast.walk(fn) if isinstance(n, ast.Name)}
                if all([x for x, _ in row] == names for row in rows) and len(uses) == len(attrs) and all(a.attr in names for a in attrs) and counts.get(r, [0, 0])[1] == 1:
                    new = {x: (x if x not in taken else "_%s_%s" % (r, x)) for x in names}

                    class B(ast.NodeTransformer):
                        def visit_Attribute(self, node):
                            if isinstance(node.value, ast.Name) and node.value.id == r and isinstance(node.ctx, ast.Load):
                                return ast.copy_location(ast.Name(id=new[node.attr], ctx=ast.Load()), node)
                            return self.generic_visit(node)
                    s.body = [B().visit(b_) for b_ in s.body]
                    s.orelse = [B().visit(b_) for b_ in s.orelse]
                    s.target = ast.Tuple(elts=[ast.Name(id=new[x], ctx=ast.Store()) for x in names], ctx=ast.Store())
                    s.iter = ast.List(elts=[ast.Tuple(elts=[v for _, v in row], ctx=ast.Load()) for row in rows], ctx=ast.Load())
            out.append(s)
        return out
    fn = _map_blocks(fn, fblock)
    # records that only this function builds and takes apart (entries of a work list, say) are read as plain tuples: R(a, b) -> (a, b),
    # x.<i-th field> -> x[i].  Only for record types the rules do not know by name, and only when every field name is a field of exactly one
    # of the record types built here and is never called as a method (`xs.index(v)` stays a method call)
    from .index import KNOWN_RECORDS
    built = {}
    for n in ast.walk(fn):
        fv = fields_of(n) if isinstance(n, ast.Call) else None
        if fv is not None and isinstance(n.func, ast.Name):
            q = ix.resolve_name(f.mod, n.func.id) or "%s.%s" % (f.mod, n.func.id)
            if q not in KNOWN_RECORDS and n.func.id not in {x.split(".")[-1] for x in KNOWN_RECORDS} and q not in methods_of:
                built[n.func.id] = [x for x, _ in fv]
    if built:
        owner = {}
        for r_, fl in built.items():
            for i_, x in enumerate(fl):
                owner.setdefault(x, []).append((r_, i_))
        called = {n.func.attr for n in ast.walk(fn) if isinstance(n, ast.Call) and isinstance(n.func, ast.Attribute)}
        stored = {n.attr for n in ast.walk(fn) if isinstance(n, ast.Attribute) and isinstance(n.ctx, (ast.Store, ast.Del))}
        usable = {x: v[0][1] for x, v in owner.items() if len(v) == 1 and x not in stored}
        if all(x in usable for fl in built.values() for x in fl):
            class R(ast.NodeTransformer):
                def visit_Call(self, node):
                    # a field that is itself called (x.command(...)) is left alone together with its record
                    self.generic_visit(node)
                    fv2 = fields_of(node)
                    if fv2 is not None and isinstance(node.func, ast.Name) and node.func.id in built:
                        return ast.copy_location(ast.Tuple(elts=[v for _, v in fv2], ctx=ast.Load()), node)
                    return node

                def visit_Attribute(self, node):
                    self.generic_visit(node)
                    if isinstance(node.ctx, ast.Load) and node.attr in usable and not getattr(node, "_is_callee", False):
                        return ast.copy_location(ast.Subscript(value=node.value, slice=ast.Constant(value=usable[node.attr]), ctx=ast.Load()), node)
                    return node
            for n in ast.walk(fn):
                if isinstance(n, ast.Call) and isinstance(n.func, ast.Attribute):
                    n.func._is_callee = True
            fn = R().visit(fn)
    ast.fix_missing_locations(fn)
    return fn


def expand_with(ix, f, fn):
    """`with cm(args) [as x]: BODY` with cm a @contextmanager generator function of the package: cm's body with `[x = <yielded value>;] BODY`
    in place of its single `yield` statement.  An exception raised in BODY is raised at the yield, so what runs afterwards is exactly what
    cm's own try/finally/except around the yield says - nothing more (a clean-up written after a bare `yield` does not run)."""
    counter = [0]

    def cm_of(call):
        if not isinstance(call, ast.Call):
            return None
        g = None
        if isinstance(call.func, ast.Name):
            g = ix.funcs.get(ix.resolve_name(f.mod, call.func.id))
        elif isinstance(call.func, ast.Attribute) and isinstance(call.func.value, ast.Name) and call.func.value.id in ("self", "cls") and f.cls:
            g = ix.funcs.get("%s.%s" % (f.cls, call.func.attr))
        if g is None or not getattr(g, "is_cm", False):
            return None
        gnode = getattr(g, "orig", None) or g.node
        ys = [n for n in ast.walk(gnode) if isinstance(n, (ast.Yield, ast.YieldFrom))]
        stmt_ys = [n for n in ast.walk(gnode) if isinstance(n, ast.Expr) and isinstance(n.value, ast.Yield)]
        if len(ys) != 1 or len(stmt_ys) != 1 or any(isinstance(n, (ast.Return, ast.Global, ast.Nonlocal)) for n in ast.walk(gnode)):
            return None
        # the yield is not inside a loop
        for n in ast.walk(gnode):
            if isinstance(n, (ast.For, ast.While)) and any(x is stmt_ys[0] for x in ast.walk(n)):
                return None
        return g

    def fblock(stmts):
        out = []
        for s_ in stmts:
            if isinstance(s_, ast.With) and len(s_.items) == 1 and cm_of(s_.items[0].context_expr) is not None:
                it = s_.items[0]
                g = cm_of(it.context_expr)
                gnode = copy.deepcopy(getattr(g, "orig", None) or g.node)
                b = _bind_args(g, gnode, it.context_expr)
                if b is None or (it.optional_vars is not None and not isinstance(it.optional_vars, ast.Name)):
                    out.append(s_)
                    continue
                params, mapping = b
                body = [x for x in gnode.body if not (isinstance(x, ast.Expr) and isinstance(x.value, ast.Constant))]
                stores = set()
                for x in body:
                    stores |= _stored_names(x)
                counter[0] += 1
                caller = _stored_names(fn) | {n.id for n in ast.walk(fn) if isinstance(n, ast.Name)}
                names, exprs, pre = {}, {}, []
                for p_ in params:
                    if p_ in stores:
                        names[p_] = "_w%d_%s" % (counter[0], p_)
                        pre.append(ast.copy_location(ast.Assign(targets=[ast.Name(id=names[p_], ctx=ast.Store())], value=copy.deepcopy(mapping[p_])), s_))
                    else:
                        exprs[p_] = mapping[p_]
                for nm in stores - set(params):
                    if nm in caller:
                        names[nm] = "_w%d_%s" % (counter[0], nm)
                ren = _Rename(names, exprs)
                body = [ren.visit(x) for x in body]
                inner = list(s_.body)

                class Y(ast.NodeTransformer):
                    def visit_Expr(self, node):
                        if isinstance(node.value, ast.Yield):
                            first = []
                            if it.optional_vars is not None:
                                first = [ast.copy_location(ast.Assign(targets=[ast.Name(id=it.optional_vars.id, ctx=ast.Store())],
                                                                      value=node.value.value if node.value.value is not None else ast.Constant(value=None)), s_)]
                            return first + inner
                        return node
                new = pre + [y for x in body for y in (lambda r: r if isinstance(r, list) else [r])(Y().visit(x))]
                for x in new:
                    ast.fix_missing_locations(x)
                out.extend(new)
                continue
            out.append(s_)
        return out
    return _map_blocks(fn, fblock)


def fold_constants(fn, consts, single):
    strconsts = {}
    local = _stored_names(fn)
    for k, v in consts.items():
        if k in single and k not in local and isinstance(v, ast.Constant) and isinstance(v.value, str):
            strconsts[k] = v.value
    classconsts = {}
    for k, v in consts.items():
        if k in single and k not in local and isinstance(v, ast.Tuple) and v.elts and all(isinstance(e, (ast.Name, ast.Attribute)) for e in v.elts):
            classconsts[k] = v
    fn = _Fold(strconsts, classconsts).visit(fn)
    fn = drop_dead_branches(fn)
    ast.fix_missing_locations(fn)
    return fn


_OPERATOR_BIN = {"add": ast.Add, "sub": ast.Sub, "mul": ast.Mult, "truediv": ast.Div, "floordiv": ast.FloorDiv, "mod": ast.Mod, "pow": ast.Pow,
                 "matmul": ast.MatMult, "and_": ast.BitAnd, "or_": ast.BitOr, "xor": ast.BitXor, "lshift": ast.LShift, "rshift": ast.RShift}
_OPERATOR_UN = {"neg": ast.USub, "pos": ast.UAdd, "not_": ast.Not, "invert": ast.Invert, "inv": ast.Invert}
_OPERATOR_CMP = {"eq": ast.Eq, "ne": ast.NotEq, "lt": ast.Lt, "le": ast.LtE, "gt": ast.Gt, "ge": ast.GtE, "is_": ast.Is, "is_not": ast.IsNot}


def fold_stdlib(ix, f, fn, consts, single):
    """the functional spellings of the standard library are rewritten to the syntax they stand for (library model: `operator`, `functools`):
    operator.neg(x) -> -x, operator.add(a, b) -> a + b, operator.getitem(a, k) -> a[k], operator.contains(a, b) -> b in a,
    operator.itemgetter(k)(x) -> x[k], operator.attrgetter("n")(x) -> x.n, functools.partial(F, a, k=v)(b) -> F(a, b, k=v), and a
    module-level `NAME = functools.partial(...)` / `NAME = lambda ...` bound exactly once is substituted where NAME is called."""
    mods = {a for a, real in ix.module_aliases.get(f.mod, {}).items() if real == "operator"}
    fmods = {a for a, real in ix.module_aliases.get(f.mod, {}).items() if real == "functools"}
    names = {local: name for local, (m, name, level) in ix.imports.get(f.mod, {}).items() if m == "operator" and level == 0}
    partials = {local for local, (m, name, level) in ix.imports.get(f.mod, {}).items() if m == "functools" and level == 0 and name == "partial"}
    local = _stored_names(fn)

    def opname(func):
        if isinstance(func, ast.Attribute) and isinstance(func.value, ast.Name) and func.value.id in mods and func.value.id not in local:
            return func.attr
        if isinstance(func, ast.Name) and func.id in names and func.id not in local:
            return names[func.id]
        return None

    def is_partial(func):
        return (isinstance(func, ast.Attribute) and isinstance(func.value, ast.Name) and func.value.id in fmods and func.attr == "partial") \
            or (isinstance(func, ast.Name) and func.id in partials and func.id not in local)

    # a local bound once, at the top level of the function, to a partial whose bound arguments are names not rebound afterwards
    local_partials = {}
    order = {id(n): i for i, n in enumerate(ast.walk(fn))}
    for st_ in fn.body:
        if isinstance(st_, ast.Assign) and len(st_.targets) == 1 and isinstance(st_.targets[0], ast.Name) and isinstance(st_.value, ast.Call) and is_partial(st_.value.func) \
                and st_.value.args and all(isinstance(x, (ast.Constant, ast.Name, ast.Attribute)) for x in list(st_.value.args) + [k.value for k in st_.value.keywords]) \
                and all(k.arg is not None for k in st_.value.keywords):
            nm = st_.targets[0].id
            stores = [n for n in ast.walk(fn) if isinstance(n, ast.Name) and n.id == nm and isinstance(n.ctx, (ast.Store, ast.Del))]
            bound = {x.id for a_ in list(st_.value.args) + [k.value for k in st_.value.keywords] for x in ast.walk(a_) if isinstance(x, ast.Name)} - mods - fmods
            after = set()
            seen_stmt = False
            for s2 in fn.body:
                if s2 is st_:
                    seen_stmt = True
                    continue
                if seen_stmt:
                    after |= _stored_names(s2)
            if len(stores) == 1 and not (bound & after):
                local_partials[nm] = st_.value

    class F(ast.NodeTransformer):
        def visit_Call(self, node):
            if isinstance(node.func, ast.Name) and node.func.id in local_partials:
                node.func = copy.deepcopy(local_partials[node.func.id])
            # NAME(...) with NAME a module-level partial / lambda
            if isinstance(node.func, ast.Name) and node.func.id in single and node.func.id not in local and node.func.id in consts:
                v = consts[node.func.id]
                # (arguments bound by a partial are evaluated once: only constants and names may be moved to the call site)
                if (isinstance(v, ast.Lambda) and not v.args.defaults and not v.args.kw_defaults) or (isinstance(v, ast.Call) and is_partial(v.func) and all(
                        isinstance(x, (ast.Constant, ast.Name, ast.Attribute)) for x in list(v.args) + [k.value for k in v.keywords])):
                    node.func = copy.deepcopy(v)
            self.generic_visit(node)
            plain = not node.keywords and not any(isinstance(a_, ast.Starred) for a_ in node.args)
            if isinstance(node.func, ast.Call) and is_partial(node.func.func) and node.func.args and not any(isinstance(a_, ast.Starred) for a_ in node.func.args + node.args) \
                    and all(k.arg is not None for k in node.func.keywords + node.keywords):
                later = {k.arg for k in node.keywords}
                return ast.copy_location(ast.Call(func=node.func.args[0], args=list(node.func.args[1:]) + list(node.args),
                                                  keywords=[k for k in node.func.keywords if k.arg not in later] + list(node.keywords)), node)
            if isinstance(node.func, ast.Lambda) and plain:
                la = node.func.args
                ps = [x.arg for x in la.posonlyargs + la.args]
                if len(ps) == len(node.args) and not la.vararg and not la.kwarg and not la.kwonlyargs and not la.defaults:
                    return ast.copy_location(_Rename({}, dict(zip(ps, node.args))).visit(copy.deepcopy(node.func.body)), node)
            # operator.itemgetter(k)(x) / attrgetter("n")(x)
            if isinstance(node.func, ast.Call) and plain and len(node.args) == 1 and not node.func.keywords and len(node.func.args) == 1:
                inner = opname(node.func.func)
                if inner == "itemgetter":
                    return ast.copy_location(ast.Subscript(value=node.args[0], slice=node.func.args[0], ctx=ast.Load()), node)
                if inner == "methodcaller" and isinstance(node.func.args[0], ast.Constant) and isinstance(node.func.args[0].value, str) and node.func.args[0].value.isidentifier():
                    return ast.copy_location(ast.Call(func=ast.Attribute(value=node.args[0], attr=node.func.args[0].value, ctx=ast.Load()), args=[], keywords=[]), node)
                if inner == "attrgetter" and isinstance(node.func.args[0], ast.Constant) and isinstance(node.func.args[0].value, str) and node.func.args[0].value.isidentifier():
                    return ast.copy_location(ast.Attribute(value=node.args[0], attr=node.func.args[0].value, ctx=ast.Load()), node)
            # np.reshape(a, (r, c)) / a.reshape((r, c))  ->  a.reshape(r, c)   (library model: function and method spellings of one operation)
            if u(node.func) in ("np.reshape", "numpy.reshape") and len(node.args) == 2 and not node.keywords and isinstance(node.args[0], (ast.Name, ast.Attribute, ast.Subscript)):
                shape = node.args[1]
                return ast.copy_location(ast.Call(func=ast.Attribute(value=node.args[0], attr="reshape", ctx=ast.Load()),
                                                  args=list(shape.elts) if isinstance(shape, ast.Tuple) else [shape], keywords=[]), node)
            if isinstance(node.func, ast.Attribute) and node.func.attr == "reshape" and len(node.args) == 1 and isinstance(node.args[0], ast.Tuple) and not node.keywords:
                node.args = list(node.args[0].elts)
            # zip(xs, islice(xs, 1, None)) reads the same pairs as zip(xs, xs[1:])
            if isinstance(node.func, ast.Name) and node.func.id == "zip":
                for i_, a_ in enumerate(node.args):
                    if isinstance(a_, ast.Call) and u(a_.func) in ("islice", "itertools.islice") and len(a_.args) in (2, 3) and isinstance(a_.args[0], ast.Name) and not a_.keywords:
                        lo, hi = (None, a_.args[1]) if len(a_.args) == 2 else (a_.args[1], a_.args[2])
                        none = lambda x: x is None or (isinstance(x, ast.Constant) and x.value is None)
                        node.args[i_] = ast.copy_location(ast.Subscript(value=a_.args[0], slice=ast.Slice(lower=None if none(lo) else lo, upper=None if none(hi) else hi, step=None), ctx=ast.Load()), a_)
            op = opname(node.func)
            if op is None or not plain:
                return node
            a = node.args
            if op in _OPERATOR_BIN and len(a) == 2:
                return ast.copy_location(ast.BinOp(left=a[0], op=_OPERATOR_BIN[op](), right=a[1]), node)
            if op in _OPERATOR_UN and len(a) == 1:
                return ast.copy_location(ast.UnaryOp(op=_OPERATOR_UN[op](), operand=a[0]), node)
            if op in _OPERATOR_CMP and len(a) == 2:
                return ast.copy_location(ast.Compare(left=a[0], ops=[_OPERATOR_CMP[op]()], comparators=[a[1]]), node)
            if op == "contains" and len(a) == 2:
                return ast.copy_location(ast.Compare(left=a[1], ops=[ast.In()], comparators=[a[0]]), node)
            if op == "getitem" and len(a) == 2:
                return ast.copy_location(ast.Subscript(value=a[0], slice=a[1], ctx=ast.Load()), node)
            if op == "truth" and len(a) == 1:
                return ast.copy_location(ast.Call(func=ast.Name(id="bool", ctx=ast.Load()), args=[a[0]], keywords=[]), node)
            return node
        def visit_Assign(self, node):
            self.generic_visit(node)
            # head, tail = os.path.split(p)  ->  head = os.path.dirname(p); tail = os.path.basename(p)
            v = node.value
            if len(node.targets) == 1 and isinstance(node.targets[0], ast.Tuple) and len(node.targets[0].elts) == 2 and all(isinstance(t, ast.Name) for t in node.targets[0].elts) \
                    and isinstance(v, ast.Call) and u(v.func) == "os.path.split" and len(v.args) == 1 and not v.keywords and isinstance(v.args[0], ast.Name) \
                    and v.args[0].id not in {t.id for t in node.targets[0].elts}:
                out = []
                for t, name in zip(node.targets[0].elts, ("dirname", "basename")):
                    call = ast.Call(func=ast.Attribute(value=ast.Attribute(value=ast.Name(id="os", ctx=ast.Load()), attr="path", ctx=ast.Load()), attr=name, ctx=ast.Load()),
                                    args=[copy.deepcopy(v.args[0])], keywords=[])
                    out.append(ast.copy_location(ast.Assign(targets=[ast.Name(id=t.id, ctx=ast.Store())], value=call), node))
                return out
            return node

        def visit_Subscript(self, node):
            self.generic_visit(node)
            # os.path.split(p)[0] / [1] are dirname(p) / basename(p) (library model: os.path)
            v = node.value
            if isinstance(node.ctx, ast.Load) and isinstance(v, ast.Call) and u(v.func) == "os.path.split" and len(v.args) == 1 and not v.keywords \
                    and isinstance(node.slice, ast.Constant) and node.slice.value in (0, 1):
                name = "dirname" if node.slice.value == 0 else "basename"
                return ast.copy_location(ast.Call(func=ast.Attribute(value=ast.Attribute(value=ast.Name(id="os", ctx=ast.Load()), attr="path", ctx=ast.Load()), attr=name, ctx=ast.Load()),
                                                  args=list(v.args), keywords=[]), node)
            return node
    fn = F().visit(fn)
    ast.fix_missing_locations(fn)
    return fn


CM_DECORATORS = frozenset("contextlib.contextmanager contextmanager".split())
TRANSPARENT_DECORATORS = frozenset("staticmethod classmethod property abstractmethod abc.abstractmethod functools.wraps wraps typing.no_type_check no_type_check "
                                   "typing.final final typing.override override".split())
MEMO_DECORATORS = frozenset("functools.lru_cache lru_cache functools.cache cache functools.cached_property cached_property".split())


def _decorator_name(d):
    return u(d.func) if isinstance(d, ast.Call) else u(d)


def _wrapper_of(dnode, call_args):
    """(wrapper FunctionDef, name bound to the decorated function) of a decorator written as a function that defines and returns its
    wrapper; one level of decorator factory (`@deco(arg)`) is unfolded with its arguments substituted"""
    body = [x for x in dnode.body if not (isinstance(x, ast.Expr) and isinstance(x.value, ast.Constant))]
    inner = [x for x in body if isinstance(x, ast.FunctionDef)]
    if len(inner) != 1 or not isinstance(body[-1], ast.Return) or not isinstance(body[-1].value, ast.Name) or body[-1].value.id != inner[0].name:
        return None
    for x in body[:-1]:
        if x is inner[0]:
            continue
        # `wrapper.__doc__ = ...`-style attribute decoration of the wrapper is allowed
        if isinstance(x, ast.Assign) and all(isinstance(t, ast.Attribute) and u(t.value) == inner[0].name for t in x.targets):
            continue
        return None
    params = [a.arg for a in dnode.args.posonlyargs + dnode.args.args]
    if dnode.args.vararg or dnode.args.kwarg or dnode.args.kwonlyargs:
        return None
    if call_args is None:
        if len(params) != 1:
            return None
        w = inner[0]
        if any(_decorator_name(d) not in ("functools.wraps", "wraps") for d in w.decorator_list):
            return None
        return w, params[0]
    # factory: bind its parameters to the (side-effect free) argument expressions and unfold the decorator it returns
    if len(call_args) > len(params) or len(params) - len(call_args) > len(dnode.args.defaults):
        return None
    if not all(isinstance(a, (ast.Constant, ast.Name, ast.Attribute, ast.Tuple)) for a in call_args):
        return None
    mapping = dict(zip(params, call_args))
    for p_, d in zip(params[len(params) - len(dnode.args.defaults):], dnode.args.defaults):
        mapping.setdefault(p_, d)
    got = _wrapper_of(inner[0], None)
    if got is None:
        return None
    w, fname = got
    if _stored_names(w) & set(mapping):
        return None
    return _Rename({}, mapping).visit(copy.deepcopy(w)), fname


def compose_decorators(ix):
    """`@deco def f(...)` with `deco` a function of the package that builds a wrapper: f becomes the wrapper (with f's own signature when the
    wrapper takes *args/**kwargs) and the undecorated function is kept as `_wrapped_<f>`, a helper unknown to the rules, so that the normal
    form inlines it where the wrapper calls it.  What the wrapper adds - a check, a conversion of the result, a swallowed exception, a cache
    - is then in front of every rule that reads f.  Decorators that cannot be read this way are recorded in `Func.opaque`."""
    from .index import Func
    for q, f in list(ix.funcs.items()):
        if q != f.qual or not f.node.decorator_list:
            continue
        node = f.node
        f.opaque = []
        f.memo = []
        for d in reversed(node.decorator_list):
            name = _decorator_name(d)
            if name in TRANSPARENT_DECORATORS or name.endswith((".setter", ".getter", ".deleter")):
                continue
            if name in MEMO_DECORATORS:
                f.memo.append(name)
                continue
            if name in CM_DECORATORS:
                f.is_cm = True          # read where it is used: `with f(...): BODY` is f's body with BODY in place of the yield (expand_with)
                continue
            dq = ix.resolve_name(f.mod, name) if "." not in name else None
            if dq is None and f.cls and name.count(".") == 0:
                dq = "%s.%s" % (f.cls, name) if "%s.%s" % (f.cls, name) in ix.funcs else None
            D = ix.funcs.get(dq) if dq else None
            got = _wrapper_of(D.node, d.args if isinstance(d, ast.Call) else None) if D is not None and (not isinstance(d, ast.Call) or not d.keywords) else None
            if got is None:
                f.opaque.append(name)
                continue
            w, fname = got
            w = copy.deepcopy(w)
            inner_name = "_wrapped_" + node.name.lstrip("_")
            n = 0
            while "%s.%s" % (f.cls or f.mod, inner_name) in ix.funcs:
                n += 1
                inner_name = "_wrapped%d_%s" % (n, node.name.lstrip("_"))
            fparams = [a.arg for a in node.args.posonlyargs + node.args.args]
            wa = w.args
            wpos = [a.arg for a in wa.posonlyargs + wa.args]
            if node.args.vararg or node.args.kwarg or wa.kwonlyargs or len(wpos) > len(fparams) or (len(wpos) < len(fparams) and not wa.vararg):
                f.opaque.append(name)
                continue
            ren = {a: b for a, b in zip(wpos, fparams) if a != b}
            if set(ren.values()) & (_stored_names(w) - set(wpos)):
                f.opaque.append(name)
                continue
            rest = fparams[len(wpos):]
            va, ka = (wa.vararg.arg if wa.vararg else None), (wa.kwarg.arg if wa.kwarg else None)
            is_method = bool(f.cls) and "staticmethod" not in [_decorator_name(x) for x in node.decorator_list]

            class W(ast.NodeTransformer):
                def visit_Call(self, c):
                    self.generic_visit(c)
                    if isinstance(c.func, ast.Name) and c.func.id == fname:
                        args = []
                        for a in c.args:
                            if isinstance(a, ast.Starred) and isinstance(a.value, ast.Name) and a.value.id == va:
                                args.extend(ast.Name(id=r, ctx=ast.Load()) for r in rest)
                            else:
                                args.append(a)
                        kws = [k for k in c.keywords if not (k.arg is None and isinstance(k.value, ast.Name) and k.value.id == ka)]
                        kws += [ast.keyword(arg=a.arg, value=ast.Name(id=a.arg, ctx=ast.Load())) for a in node.args.kwonlyargs
                                if len(kws) != len(c.keywords)]
                        if is_method and args and isinstance(args[0], ast.Name) and args[0].id == fparams[0]:
                            return ast.copy_location(ast.Call(func=ast.Attribute(value=args[0], attr=inner_name, ctx=ast.Load()), args=args[1:], keywords=kws), c)
                        return ast.copy_location(ast.Call(func=ast.Name(id=inner_name, ctx=ast.Load()), args=args, keywords=kws), c)
                    return c

                def visit_Subscript(self, sub):
                    self.generic_visit(sub)
                    if isinstance(sub.value, ast.Name) and sub.value.id == va and isinstance(sub.slice, ast.Constant) and isinstance(sub.slice.value, int) \
                            and 0 <= sub.slice.value < len(rest) and isinstance(sub.ctx, ast.Load):
                        return ast.copy_location(ast.Name(id=rest[sub.slice.value], ctx=ast.Load()), sub)
                    return sub
            w = _Rename(ren, {}).visit(w)
            for a in w.args.posonlyargs + w.args.args:
                a.arg = ren.get(a.arg, a.arg)
            w = W().visit(w)
            pre = []
            loads = {x.id for x in ast.walk(w) if isinstance(x, ast.Name)}
            if va and va in loads:
                pre.append(ast.Assign(targets=[ast.Name(id=va, ctx=ast.Store())], value=ast.Tuple(elts=[ast.Name(id=r, ctx=ast.Load()) for r in rest], ctx=ast.Load())))
            if ka and ka in loads:
                pre.append(ast.Assign(targets=[ast.Name(id=ka, ctx=ast.Store())], value=ast.Dict(keys=[], values=[])))
            outer = ast.FunctionDef(name=node.name, args=copy.deepcopy(node.args), body=pre + w.body,
                                    decorator_list=[x for x in node.decorator_list if _decorator_name(x) in ("staticmethod", "classmethod", "property")],
                                    returns=None, type_comment=None)
            if hasattr(node, "type_params"):
                outer.type_params = []
            ast.copy_location(outer, node)
            ast.fix_missing_locations(outer)
            inner = copy.deepcopy(node)
            inner.name = inner_name
            inner.decorator_list = [x for x in node.decorator_list if _decorator_name(x) in ("staticmethod", "classmethod")]
            iq = "%s.%s" % (f.cls or f.mod, inner_name)
            ix.funcs[iq] = Func(f.mod, iq, inner, cls=f.cls)
            ix.funcs[iq].decorated_original_of = q
            node = outer
        f.node = node


def _calls_outside_scopes(node):
    """Call nodes of a simple statement that are evaluated exactly when the statement runs (not inside lambdas / comprehensions /
    the short-circuited operands of and/or/if-expressions)"""
    out = []

    def walk(n, cond):
        if isinstance(n, (ast.Lambda, ast.ListComp, ast.SetComp, ast.DictComp, ast.GeneratorExp, ast.FunctionDef, ast.ClassDef)):
            return
        if isinstance(n, ast.Call) and not cond:
            out.append(n)
        if isinstance(n, ast.BoolOp):
            walk(n.values[0], cond)
            for v in n.values[1:]:
                walk(v, True)
            return
        if isinstance(n, ast.IfExp):
            walk(n.test, cond)
            walk(n.body, True)
            walk(n.orelse, True)
            return
        for c in ast.iter_child_nodes(n):
            walk(c, cond)
    walk(node, False)
    return out


class _ReplaceNode(ast.NodeTransformer):
    def __init__(self, old, new):
        self.old, self.new = old, new

    def visit(self, node):
        if node is self.old:
            return self.new
        return self.generic_visit(node)


_COMMON_METHODS = frozenset(m for t in (list, dict, set, str, tuple, frozenset, bytes, int, float, complex) for m in dir(t)) | frozenset(
    "flatten ravel reshape astype tolist copy item any all sum prod subs xreplace evalf simplify expand atoms has match walk visit start".split())


def _plain_chain(e):
    while isinstance(e, ast.Attribute):
        e = e.value
    return isinstance(e, ast.Name)


def local_instance_class(ix, f, name):
    """qual of the package class a local of f is an instance of: the local is bound exactly once, to a constructor call of that class,
    or is a parameter that every call site in the package passes such a local for (helpers the object is handed down to)"""
    node = getattr(f, "orig", None) or f.node
    binds = [n for n in ast.walk(node) if isinstance(n, ast.Assign) and any(isinstance(t, ast.Name) and t.id == name for t in n.targets)]
    stores = [n for n in ast.walk(node) if isinstance(n, ast.Name) and n.id == name and isinstance(n.ctx, (ast.Store, ast.Del))]
    if len(binds) == 1 and len(stores) == 1 and isinstance(binds[0].value, ast.Call) and isinstance(binds[0].value.func, ast.Name):
        q = ix.resolve_name(f.mod, binds[0].value.func.id)
        if q in ix.classes:
            return q
    return None


def _resolve_helper(ix, f, call, keep, stack=()):
    """the Func a call refers to, when it is a package function the rules do not know by name and that can be analysed in place"""
    g = None
    if isinstance(call.func, ast.Name):
        q = ix.resolve_name(f.mod, call.func.id)
        g = ix.funcs.get(q)
    elif isinstance(call.func, ast.Attribute) and isinstance(call.func.value, ast.Name) and call.func.value.id in ("self", "cls") and f.cls:
        g = ix.funcs.get("%s.%s" % (f.cls, call.func.attr))
    elif isinstance(call.func, ast.Attribute) and isinstance(call.func.value, ast.Name) and f.cls and call.func.value.id == f.cls.split(".")[-1]:
        g = ix.funcs.get("%s.%s" % (f.cls, call.func.attr))         # ClassName.static_helper(...)
    elif isinstance(call.func, ast.Attribute) and isinstance(call.func.value, ast.Name) and call.func.value.id not in ("self", "cls"):
        # a method of a local object of a class of the package: `arrays = _ArrayDeclarations()` ... `arrays.declare(v)`
        cq = local_instance_class(ix, f, call.func.value.id)
        if cq is not None:
            g = ix.funcs.get("%s.%s" % (cq, call.func.attr))
            if g is not None and any(_decorator_name(d) in ("staticmethod", "classmethod") for d in (getattr(g, "orig", None) or g.node).decorator_list):
                g = None
        else:
            # a method name that exactly one class of the package defines (and that is neither a parse-tree accessor nor a method of the
            # built-in containers and strings): the receiver can only be an object of that class
            name = call.func.attr
            if name not in _COMMON_METHODS and name not in ix.accessor_names() and not name.startswith("__"):
                cands = [h for q_, h in ix.funcs.items() if q_ == h.qual and h.cls and h.name == name and h.qual not in keep]
                if len(cands) == 1 and not (getattr(cands[0], "orig", None) or cands[0].node).decorator_list:
                    g = cands[0]
    elif isinstance(call.func, ast.Attribute) and isinstance(call.func.value, ast.Attribute) and _plain_chain(call.func.value):
        # self._program.set_variable(...): a method that exactly one class of the package defines, called on an attribute chain
        name = call.func.attr
        if name not in _COMMON_METHODS and name not in ix.accessor_names() and not name.startswith("__"):
            cands = [h for q_, h in ix.funcs.items() if q_ == h.qual and h.cls and h.name == name and h.qual not in keep]
            if len(cands) == 1 and not (getattr(cands[0], "orig", None) or cands[0].node).decorator_list:
                g = cands[0]
    if g is None or g.qual == f.qual or g.qual in stack or g.qual in keep or g.name.startswith("__"):
        return None
    decos = [u(d) for d in g.node.decorator_list]
    if any(d not in ("staticmethod", "classmethod") for d in decos):
        return None
    for n in ast.walk(g.node):
        if isinstance(n, (ast.Yield, ast.YieldFrom, ast.Global, ast.Nonlocal, ast.Await)):
            return None
        if isinstance(n, ast.Call) and isinstance(n.func, ast.Name) and n.func.id == g.name:
            return None
    return g


def _bind_args(g, gnode, call):
    """parameter -> argument expression for this call (a *args parameter is bound to the tuple of the extra positional arguments)"""
    params = [a.arg for a in gnode.args.posonlyargs + gnode.args.args]
    if g.cls and "staticmethod" not in [u(d) for d in gnode.decorator_list] and params and params[0] in ("self", "cls"):
        params = params[1:]
    if any(isinstance(a, ast.Starred) for a in call.args) or any(kw.arg is None for kw in call.keywords) or gnode.args.kwarg:
        return None
    mapping = dict(zip(params, call.args))
    extra = call.args[len(params):]
    if gnode.args.vararg:
        mapping[gnode.args.vararg.arg] = ast.Tuple(elts=list(extra), ctx=ast.Load())
    elif extra:
        return None
    kwonly = [a.arg for a in gnode.args.kwonlyargs]
    for kw in call.keywords:
        if kw.arg not in params + kwonly or kw.arg in mapping:
            return None
        mapping[kw.arg] = kw.value
    defaults = gnode.args.defaults
    for p_, d in zip(params[len(params) - len(defaults):], defaults):
        mapping.setdefault(p_, d)
    for a, d in zip(gnode.args.kwonlyargs, gnode.args.kw_defaults):
        if d is not None:
            mapping.setdefault(a.arg, d)
    allp = params + kwonly + ([gnode.args.vararg.arg] if gnode.args.vararg else [])
    if set(allp) - set(mapping):
        return None
    return allp, mapping


def inline_expressions(ix, f, fn, keep=frozenset(), depth=3):
    """calls to unknown helpers whose body is `return <expr>` (after a docstring and once-bound pure locals) are replaced by that
    expression wherever they occur (comprehensions and lambdas included) when the arguments are plain names / attributes / constants /
    subscripts, so that substituting them cannot change what is evaluated or how often"""
    def simple(e):
        if isinstance(e, (ast.Name, ast.Constant)):
            return True
        if isinstance(e, ast.Attribute):
            return simple(e.value)
        if isinstance(e, ast.Subscript):
            return simple(e.value) and simple(e.slice)
        if isinstance(e, (ast.Tuple, ast.List)):
            return all(simple(x) for x in e.elts)
        if isinstance(e, ast.UnaryOp):
            return simple(e.operand)
        if isinstance(e, ast.Call) and isinstance(e.func, ast.Attribute) and not e.args and not e.keywords:
            return simple(e.func.value)            # accessor call without arguments: ctx.name()
        return False

    # closures defined at the top level of this function whose body is one return expression over their parameters and over names of the
    # enclosing function that are bound at most once (so the value read inside the closure is the value at any call)
    stores = {}
    for n in ast.walk(fn):
        if isinstance(n, ast.Name) and isinstance(n.ctx, (ast.Store, ast.Del)):
            stores[n.id] = stores.get(n.id, 0) + 1
        elif isinstance(n, (ast.Global, ast.Nonlocal)):
            for x in n.names:
                stores[x] = stores.get(x, 0) + 2
    local_defs = {}
    for st_ in fn.body:
        if isinstance(st_, ast.FunctionDef) and not st_.decorator_list and not any(isinstance(n, (ast.Yield, ast.YieldFrom, ast.Nonlocal, ast.Global)) for n in ast.walk(st_)) \
                and stores.get(st_.name, 0) == 0 and not st_.args.vararg and not st_.args.kwarg and not st_.args.defaults and not st_.args.kwonlyargs:
            ret, binds = single_return(st_)
            if ret is None:
                continue
            ps = {a.arg for a in st_.args.posonlyargs + st_.args.args}
            free = {x.id for e_ in [ret] + list(binds.values()) for x in ast.walk(e_) if isinstance(x, ast.Name)} - ps - set(binds)
            if all(stores.get(x, 0) <= 1 for x in free) and not any(isinstance(c, ast.Call) and isinstance(c.func, ast.Name) and c.func.id == st_.name for c in ast.walk(st_)):
                local_defs[st_.name] = st_

    class LocalG:
        cls = None

        def __init__(self, node):
            self.node = self.orig = node
            self.name, self.qual, self.mod = node.name, "%s.<locals>.%s" % (f.qual, node.name), f.mod

    class T(ast.NodeTransformer):
        def __init__(self, d):
            self.d = d

        def visit_FunctionDef(self, node):
            if node is fn:
                return self.generic_visit(node)
            return node                 # nested definitions are read where they are called

        def visit_Call(self, node):
            self.generic_visit(node)
            if self.d <= 0:
                return node
            if isinstance(node.func, ast.Name) and node.func.id in local_defs:
                g = LocalG(local_defs[node.func.id])
            else:
                g = _resolve_helper(ix, f, node, keep)
            if g is None:
                return node
            gnode = getattr(g, "orig", None) or g.node
            ret, binds = single_return(gnode)
            if ret is None:
                return node
            b = _bind_args(g, gnode, node)
            if b is None:
                return node
            allp, mapping = b
            if isinstance(node.func, ast.Attribute) and isinstance(node.func.value, ast.Name) and node.func.value.id not in ("self", "cls") and getattr(g, "cls", None) \
                    and not (f.cls and node.func.value.id == f.cls.split(".")[-1]):
                first = [a.arg for a in gnode.args.posonlyargs + gnode.args.args][:1]
                if first and first[0] in ("self", "cls"):
                    mapping = dict(mapping)
                    mapping[first[0]] = node.func.value          # a method of a local object: self is that object
                    allp = list(allp) + [first[0]]
            elif isinstance(node.func, ast.Attribute) and isinstance(node.func.value, ast.Attribute) and simple(node.func.value) and getattr(g, "cls", None):
                # a method of a named object of a module (an Enum member `Kind.MEMBER.method(..)`): self is that object
                first = [a.arg for a in gnode.args.posonlyargs + gnode.args.args][:1]
                if first and first[0] in ("self", "cls") and not u(node.func.value).startswith(("self.", "cls.")):
                    mapping = dict(mapping)
                    mapping[first[0]] = node.func.value
                    allp = list(allp) + [first[0]]
            # a method body that speaks of its own object can only be read into a caller that names that object
            if getattr(g, "cls", None) and g.cls != f.cls:
                first = [a.arg for a in gnode.args.posonlyargs + gnode.args.args][:1]
                if first and first[0] in ("self", "cls") and first[0] not in mapping and any(isinstance(x, ast.Name) and x.id == first[0] for x in ast.walk(ret)):
                    return node
            uses = {}
            for x in ast.walk(ret):
                if isinstance(x, ast.Name):
                    uses[x.id] = uses.get(x.id, 0) + 1
            for bv in binds.values():
                for x in ast.walk(bv):
                    if isinstance(x, ast.Name):
                        uses[x.id] = uses.get(x.id, 0) + 1
            for p_ in allp:
                if not simple(mapping[p_]) and uses.get(p_, 0) > 1:
                    return node
            expr = copy.deepcopy(ret)
            for name in reversed(list(binds)):
                expr = _Sub({name: binds[name]}).visit(expr)
            expr = _Sub(mapping).visit(expr)
            expr = T(self.d - 1).visit(expr)
            return ast.copy_location(expr, node)
    fn = T(depth).visit(fn)
    # a closure no call refers to any more is dropped from the analysed body
    for name, d_ in local_defs.items():
        if d_ in fn.body and not any(isinstance(n, ast.Name) and n.id == name for st_ in fn.body if st_ is not d_ for n in ast.walk(st_)):
            fn.body.remove(d_)
    ast.fix_missing_locations(fn)
    return fn


def inline_function(ix, f, depth=2, _stack=(), keep=frozenset(), fn=None):
    """deep copy of f.node in which calls to package helpers the rules do not know by name are replaced by the helper's body: the
    statement containing the call (for an assignment from a helper with several returns: that statement and the rest of its block)
    becomes the continuation of every `return` of the helper.  Only tail shapes are inlined: helpers that return from inside loops or
    try blocks, recursive helpers, generators and **kwargs helpers are left alone."""
    fn = copy.deepcopy(f.node) if fn is None else fn
    counter = [0]
    # the caller's own local names (names of nested function definitions' bodies are theirs, not the caller's)
    caller_names = set()
    for st_ in fn.body:
        if not isinstance(st_, (ast.FunctionDef, ast.ClassDef)):
            caller_names |= _stored_names(st_)
    caller_names |= {a.arg for a in fn.args.posonlyargs + fn.args.args + fn.args.kwonlyargs}
    origin = {}                # local name -> helper whose inlining introduced it (its activations may share the name: a helper's own
                               # locals are always assigned before they are read)
    # closures defined at the top of this function (`def declare_array(A): nonlocal ...`) are helpers like any other
    local_defs = {n.name: n for n in fn.body if isinstance(n, ast.FunctionDef)}

    class LocalFunc:
        cls = None

        def __init__(self, node):
            self.node = self.orig = node
            self.name = node.name
            self.qual = "%s.<locals>.%s" % (f.qual, node.name)
            self.mod = f.mod

    def resolve(call):
        if isinstance(call.func, ast.Name) and call.func.id in local_defs:
            g = local_defs[call.func.id]
            if g.decorator_list or any(isinstance(n, (ast.Yield, ast.YieldFrom, ast.Global, ast.Await)) for n in ast.walk(g)) \
                    or any(isinstance(n, ast.Call) and isinstance(n.func, ast.Name) and n.func.id == g.name for n in ast.walk(g)):
                return None
            return LocalFunc(g)
        return _resolve_helper(ix, f, call, keep, _stack)

    def same_pure_binding(nm, body, mapping):
        """the caller and the helper each bind `nm` exactly once, to the same argument-free accessor chain rooted at a parameter the caller
        never rebinds (`name = ctx.name().getText()` on both sides, the helper's `ctx` being the caller's)"""
        def chain_root(e):
            while True:
                if isinstance(e, ast.Call) and not e.args and not e.keywords and isinstance(e.func, ast.Attribute):
                    e = e.func.value
                elif isinstance(e, ast.Attribute):
                    e = e.value
                else:
                    break
            return e.id if isinstance(e, ast.Name) else None
        mine = [n for n in ast.walk(fn) if isinstance(n, ast.Assign) and any(isinstance(t, ast.Name) and t.id == nm for t in n.targets)]
        theirs = [n for s_ in body for n in ast.walk(s_) if isinstance(n, ast.Assign) and any(isinstance(t, ast.Name) and t.id == nm for t in n.targets)]
        others = [n for n in ast.walk(fn) if isinstance(n, ast.Name) and n.id == nm and isinstance(n.ctx, (ast.Store, ast.Del))]
        others_h = [n for s_ in body for n in ast.walk(s_) if isinstance(n, ast.Name) and n.id == nm and isinstance(n.ctx, (ast.Store, ast.Del))]
        if len(mine) != 1 or len(theirs) != 1 or len(others) != 1 or len(others_h) != 1 or len(mine[0].targets) != 1 or len(theirs[0].targets) != 1:
            return False
        r1, r2 = chain_root(mine[0].value), chain_root(theirs[0].value)
        if r1 is None or r2 is None:
            return False
        params_f = {a.arg for a in fn.args.posonlyargs + fn.args.args}
        if r1 not in params_f or any(isinstance(n, ast.Name) and n.id == r1 and isinstance(n.ctx, ast.Store) for n in ast.walk(fn)):
            return False
        # the helper's root is one of its parameters, bound to the caller's root
        arg = mapping.get(r2)
        if not (isinstance(arg, ast.Name) and arg.id == r1):
            return False
        t1 = u(mine[0].value)
        t2 = u(_Rename({}, {r2: ast.Name(id=r1, ctx=ast.Load())}).visit(copy.deepcopy(theirs[0].value)))
        return " ".join(t1.split()) == " ".join(t2.split())

    def expand(call, k, same_name=None, tail=False):
        """k(value expr or None) -> statements continuing after the helper returned that value; tail: the call is the whole value of a
        `return`, so the helper's own returns are the caller's and its body is taken as it is (no continuation to distribute)"""
        g = resolve(call)
        if g is None:
            return None
        gnode = desugar_match(copy.deepcopy(getattr(g, "orig", None) or g.node))
        body = [s for s in gnode.body if not (isinstance(s, ast.Expr) and isinstance(s.value, ast.Constant))]
        if not body:
            return None
        b = _bind_args(g, gnode, call)
        if b is None:
            return None
        params, mapping = b
        receiver = None
        if isinstance(call.func, ast.Attribute) and getattr(g, "cls", None) and (
                (isinstance(call.func.value, ast.Name) and call.func.value.id not in ("self", "cls") and not (f.cls and call.func.value.id == f.cls.split(".")[-1]))
                or (isinstance(call.func.value, ast.Attribute) and _plain_chain(call.func.value))):
            first = [a.arg for a in gnode.args.posonlyargs + gnode.args.args][:1]
            if first and first[0] in ("self", "cls"):
                receiver = (first[0], call.func.value)
        shared = set()
        for s in body:
            if isinstance(s, ast.Nonlocal):
                shared.update(s.names)              # names of the enclosing function: not renamed, not parameters
        body = [s for s in body if not isinstance(s, ast.Nonlocal)]
        helper_stores = set()
        for s in body:
            helper_stores |= _stored_names(s)
        helper_stores -= shared
        counter[0] += 1
        names, exprs, pre = {}, {}, []
        uses_of = {}
        for s_ in body:
            for x in ast.walk(s_):
                if isinstance(x, ast.Name) and isinstance(x.ctx, ast.Load):
                    uses_of[x.id] = uses_of.get(x.id, 0) + 1

        def effectful(e):
            """an argument whose evaluation may do something (a call that is not a plain accessor chain): it is evaluated once, where the call is"""
            for x in ast.walk(e):
                if isinstance(x, ast.Call) and not (isinstance(x.func, ast.Attribute) and not x.args and not x.keywords):
                    return True
            return False
        for p_ in params:
            if p_ in helper_stores or (effectful(mapping[p_]) and uses_of.get(p_, 0) != 1):
                new = p_ if (p_ not in caller_names or origin.get(p_) == g.qual) else "_h%d_%s" % (counter[0], p_)
                if p_ not in caller_names:
                    origin[p_] = g.qual
                names[p_] = new
                pre.append(ast.Assign(targets=[ast.Name(id=new, ctx=ast.Store())], value=copy.deepcopy(mapping[p_]), lineno=call.lineno, col_offset=0))
            else:
                exprs[p_] = mapping[p_]
        for nm in helper_stores - set(params):
            if nm in caller_names and nm != same_name and origin.get(nm) != g.qual:
                if same_pure_binding(nm, body, mapping):
                    continue            # both sides bind the name once to the same accessor chain of the same object: one name, one value
                names[nm] = "_h%d_%s" % (counter[0], nm)
            elif nm not in caller_names:
                origin[nm] = g.qual
        if receiver is not None:
            exprs[receiver[0]] = receiver[1]
        ren = _Rename(names, exprs)
        body = [ren.visit(copy.deepcopy(s)) for s in body]
        try:
            if tail:
                out = pre + body + ([] if _always_leaves(body) else [ast.Return(value=ast.Constant(value=None), lineno=call.lineno, col_offset=0)])
            else:
                out = pre + _tailify(body, k, k(None))
        except _Abort:
            return None
        for s in out:
            ast.fix_missing_locations(s)
            caller_names.update(_stored_names(s))
        return out or [ast.Pass(lineno=call.lineno, col_offset=0)]

    def value_returns(g):
        return len([r for r in _shallow_returns((getattr(g, "orig", None) or g.node).body) if r.value is not None])

    def simple_expand(s, rest):
        """-> (replacement statements, rest absorbed?)"""
        if isinstance(s, ast.Expr) and isinstance(s.value, ast.Call):
            r = expand(s.value, lambda v: [])
            if r is not None:
                return r, False
        if isinstance(s, ast.Return) and isinstance(s.value, ast.Call):
            r = expand(s.value, None, tail=True)
            if r is not None:
                return r, False
        if isinstance(s, ast.Assign) and len(s.targets) == 1 and isinstance(s.value, ast.Call) and resolve(s.value) is not None:
            tgt = s.targets[0]
            # `value = render(v)` followed by the one statement that uses it: that statement becomes the continuation of every return
            absorb = isinstance(tgt, ast.Name) and value_returns(resolve(s.value)) > 1 and len(rest) == 1 and isinstance(rest[0], (ast.Expr, ast.Assign, ast.AugAssign, ast.Return)) and \
                any(isinstance(x, ast.Name) and x.id == tgt.id for x in ast.walk(rest[0]))

            def k(v):
                if isinstance(v, ast.Name) and isinstance(tgt, ast.Name) and v.id == tgt.id:
                    first = []
                else:
                    first = [ast.copy_location(ast.Assign(targets=[copy.deepcopy(tgt)], value=v if v is not None else ast.Constant(value=None)), s)]
                return first + (copy.deepcopy(rest) if absorb else [])
            r = expand(s.value, k, same_name=tgt.id if isinstance(tgt, ast.Name) else None)
            if r is not None:
                return r, absorb
        if isinstance(s, (ast.Expr, ast.Assign, ast.AugAssign, ast.Return, ast.AnnAssign)):
            for call in _calls_outside_scopes(s):
                # k works on a copy of s: locate the call by its position in the walk
                idx = [i for i, n in enumerate(ast.walk(s)) if n is call][0]

                def k(v, idx=idx):
                    c = copy.deepcopy(s)
                    tgt = list(ast.walk(c))[idx]
                    return [_ReplaceNode(tgt, v if v is not None else ast.Constant(value=None)).visit(c)]
                rep = expand(call, k)
                if rep is not None:
                    return rep, False
        return None, False

    def hoist_header_calls(stmts):
        """`for x in H(a).values():` / `if H(a):` with H a helper that has to be read in place: the call is bound to a temporary in front of
        the statement (the header of a for / if is evaluated exactly once, before anything of the statement runs) when nothing but names,
        constants and attribute loads is evaluated before it"""
        from .ts import postorder
        out = []
        for s in stmts:
            header = s.iter if isinstance(s, ast.For) else None        # (tests that call a helper are read by the rules' model evaluation of helpers)
            if header is not None:
                for call in _calls_outside_scopes(header):
                    g = resolve(call)
                    if g is None or single_return(getattr(g, "orig", None) or g.node)[0] is not None:
                        continue
                    ok = True
                    for x in postorder(header):
                        if x is call:
                            break
                        if any(x is y for y in ast.walk(call)):
                            continue
                        if not isinstance(x, (ast.Name, ast.Constant, ast.Attribute, ast.expr_context, ast.operator, ast.unaryop, ast.cmpop, ast.boolop)):
                            ok = False
                            break
                    if not ok:
                        continue
                    counter[0] += 1
                    tmp = "_r%d" % (1000 + counter[0])
                    out.append(ast.copy_location(ast.Assign(targets=[ast.Name(id=tmp, ctx=ast.Store())], value=call), s))
                    repl = ast.copy_location(ast.Name(id=tmp, ctx=ast.Load()), call)
                    if header is call:
                        if isinstance(s, ast.For):
                            s.iter = repl
                        else:
                            s.test = repl
                    else:
                        _ReplaceNode(call, repl).visit(header)
                    caller_names.add(tmp)
                    break
            out.append(s)
        return out

    def block(stmts, d):
        out = []
        if d > 0:
            stmts = hoist_header_calls(list(stmts))
        for i, s in enumerate(stmts):
            rep, absorbed = simple_expand(s, stmts[i + 1:]) if d > 0 else (None, False)
            if rep is not None:
                out.extend(block(rep, d - 1))
                if absorbed:
                    return out
                continue
            for field in ("body", "orelse", "finalbody"):
                sub = getattr(s, field, None)
                if isinstance(sub, list) and sub and isinstance(sub[0], ast.stmt):
                    setattr(s, field, block(sub, d))
            if isinstance(s, ast.Try):
                for h in s.handlers:
                    h.body = block(h.body, d)
            if isinstance(s, ast.Match):
                for c in s.cases:
                    c.body = block(c.body, d)
            out.append(s)
        return out

    fn.body = block(fn.body, depth)
    # a closure all of whose calls were expanded is no longer referenced: it is dropped from the analysed body
    for name, d in list(local_defs.items()):
        refs = [n for st_ in fn.body if st_ is not d for n in ast.walk(st_) if isinstance(n, ast.Name) and n.id == name]
        if not refs and d in fn.body:
            fn.body.remove(d)
    ast.fix_missing_locations(fn)
    return fn


def propagate_aliases(fn, accessors=frozenset()):
    """a local bound exactly once to another name for an existing object is replaced by what it stands for in its later uses:
       - a plain attribute chain / parse-tree accessor chain of a name that is bound at most once (`program = self._program`,
         `shape_ctx = ctx.shape()`, `append = args.append`), provided no prefix of the chain is assigned anywhere in the function;
       - a module-level name (`var_table = _VAR`);
       - an element of a module-level table selected by a name bound at most once (`cast = PYTHON_TYPES[vartype]`)."""
    stores = {}
    attr_stores = set()
    for n in ast.walk(fn):
        if isinstance(n, ast.Name) and isinstance(n.ctx, (ast.Store, ast.Del)):
            stores[n.id] = stores.get(n.id, 0) + 1
        elif isinstance(n, ast.Attribute) and isinstance(n.ctx, (ast.Store, ast.Del)):
            attr_stores.add(" ".join(u(n).split()))
        elif isinstance(n, (ast.Global, ast.Nonlocal)):
            for x in n.names:
                stores[x] = stores.get(x, 0) + 2
    params = {a.arg for a in fn.args.posonlyargs + fn.args.args + fn.args.kwonlyargs}
    for p_ in params:
        stores[p_] = stores.get(p_, 0)          # a parameter that is never assigned counts as bound once (at entry)
    loop_targets = set()
    for n in ast.walk(fn):
        if isinstance(n, (ast.For, ast.comprehension)):
            loop_targets |= {x.id for x in ast.walk(n.target) if isinstance(x, ast.Name)}

    def stable(name):
        """the name denotes one object throughout: a never-assigned parameter / global, or a local assigned exactly once outside loops' targets"""
        if name in loop_targets:
            return False
        return stores.get(name, 0) == 0 or (stores.get(name, 0) == 1 and name not in params)

    def chain(e):
        parts = []
        while True:
            if isinstance(e, ast.Attribute):
                parts.append(e.attr)
                e = e.value
            elif accessors and isinstance(e, ast.Call) and not e.args and not e.keywords and isinstance(e.func, ast.Attribute) and e.func.attr in accessors:
                parts.append(e.func.attr + "()")        # generated parse-tree accessor: a pure read
                e = e.func.value
            else:
                break
        if isinstance(e, ast.Name) and parts:
            if any(p_.endswith("()") for p_ in parts) and parts[0] in ("getText()", "getChildren()", "getChildCount()"):
                return None        # a text / list value read from the tree is a value in its own right, not an alias of a tree node
            return e.id, list(reversed(parts))
        return None

    callfree_def = {}
    for n in ast.walk(fn):
        if isinstance(n, ast.Assign) and len(n.targets) == 1 and isinstance(n.targets[0], ast.Name) and stores.get(n.targets[0].id) == 1:
            callfree_def[n.targets[0].id] = not any(isinstance(x, ast.Call) for x in ast.walk(n.value))
    cands = {}
    for n in ast.walk(fn):
        if isinstance(n, ast.Assign) and len(n.targets) == 1 and isinstance(n.targets[0], ast.Name) and stores.get(n.targets[0].id) == 1 and n.targets[0].id not in params \
                and n.targets[0].id not in loop_targets:
            v = n.value
            if isinstance(v, ast.Name) and stores.get(v.id, 0) == 0 and v.id not in params and v.id not in ("True", "False", "None"):
                cands[n.targets[0].id] = (n, v)                       # another name for a module-level object
                continue
            if isinstance(v, ast.Name) and stores.get(v.id, 0) == 1 and v.id not in loop_targets and v.id not in params and n in fn.body:
                cands[n.targets[0].id] = (n, v)                       # a second name for a local that is bound once: two names, one object
                continue
            if isinstance(v, ast.Subscript) and isinstance(v.value, ast.Name) and stores.get(v.value.id, 0) == 0 and v.value.id not in params and v.value.id.isupper() \
                    and isinstance(v.slice, ast.Name) and stable(v.slice.id):
                cands[n.targets[0].id] = (n, v)                       # TABLE[key]
                continue
            c = chain(v)
            if c is None:
                continue
            root, parts = c
            if not stable(root) or not (root in params or root == "self" or stores.get(root, 0) <= 1):
                continue
            if any(p_.endswith("()") for p_ in parts) and root not in params and not callfree_def.get(root, False):
                continue           # accessor calls are known to be pure reads only on context objects: what a handler receives, or a
                                   # local bound once to a call-free expression over such objects (`ctx = e.ctx if e else recognizer._ctx`)
            prefixes = {root + "".join("." + p_ for p_ in parts[:k]) for k in range(1, len(parts) + 1)}
            if prefixes & attr_stores:
                continue
            cands[n.targets[0].id] = (n, v)
    if not cands:
        return fn

    class S(ast.NodeTransformer):
        def visit_Name(self, node):
            if isinstance(node.ctx, ast.Load) and node.id in cands:
                a, v = cands[node.id]
                if getattr(node, "_ord", 1) > getattr(a, "_ord", 0):
                    return ast.copy_location(copy.deepcopy(v), node)
            return node
    from .index import number_nodes
    number_nodes(fn)
    fn = S().visit(fn)
    # a second name for a local object that nothing reads any more is dropped
    for name, (a, v) in cands.items():
        if isinstance(v, ast.Name) and a in fn.body and not any(isinstance(n, ast.Name) and n.id == name and isinstance(n.ctx, ast.Load) for n in ast.walk(fn)):
            fn.body.remove(a)
    ast.fix_missing_locations(fn)
    return fn


def inline_deferred_lists(fn):
    """lines collected in a local list and added to another list as a whole afterwards - `L = []` ... `L.append(x)` ... `T.extend(L)` - are
    added to T where they are produced, when T's end is not written in between (insertions at positions that exist already, such as the
    splice of hoisted declarations at the insertion point, do not depend on what follows them) and L is used for nothing else"""
    changed = True
    while changed:
        changed = False
        blocks = [fn.body] + [getattr(n_, fld) for n_ in ast.walk(fn) if n_ is not fn for fld in ("body", "orelse", "finalbody")
                              if isinstance(getattr(n_, fld, None), list) and getattr(n_, fld) and isinstance(getattr(n_, fld)[0], ast.stmt)]
        for blk in blocks:
            if _deferred_in_block(fn, blk):
                changed = True
                break
    ast.fix_missing_locations(fn)
    return fn


def _deferred_in_block(fn, blk):
    if True:
        for st_ in list(blk):
            if not (isinstance(st_, ast.Assign) and len(st_.targets) == 1 and isinstance(st_.targets[0], ast.Name) and isinstance(st_.value, ast.List) and not st_.value.elts):
                continue
            L = st_.targets[0].id
            stores = [n for n in ast.walk(fn) if isinstance(n, ast.Name) and n.id == L and isinstance(n.ctx, (ast.Store, ast.Del))]
            if len(stores) != 1:
                continue
            loads = [n for n in ast.walk(fn) if isinstance(n, ast.Name) and n.id == L and isinstance(n.ctx, ast.Load)]
            puts = [n for n in ast.walk(fn) if isinstance(n, ast.Expr) and isinstance(n.value, ast.Call) and isinstance(n.value.func, ast.Attribute) and n.value.func.attr in ("append", "extend")
                    and isinstance(n.value.func.value, ast.Name) and n.value.func.value.id == L and not any(isinstance(x, ast.Name) and x.id == L for a_ in n.value.args for x in ast.walk(a_))]
            cons = [n for n in blk if isinstance(n, ast.Expr) and isinstance(n.value, ast.Call) and isinstance(n.value.func, ast.Attribute) and n.value.func.attr == "extend"
                    and isinstance(n.value.func.value, ast.Name) and len(n.value.args) == 1 and isinstance(n.value.args[0], ast.Name) and n.value.args[0].id == L and not n.value.keywords]
            if len(cons) != 1 or not puts or len(loads) != len(puts) + 1:
                continue
            T = cons[0].value.func.value.id
            if T == L:
                continue
            i0, i1 = blk.index(st_), blk.index(cons[0])
            if i1 < i0:
                continue
            between = blk[i0 + 1:i1]
            if any(not any(p_ is x for b_ in between for x in ast.walk(b_)) for p_ in puts):
                continue            # L is filled somewhere else as well
            blocked = False
            for b_ in between:
                for n in ast.walk(b_):
                    if isinstance(n, ast.Call) and isinstance(n.func, ast.Attribute) and isinstance(n.func.value, ast.Name) and n.func.value.id == T and n.func.attr in ("append", "extend", "pop", "clear", "remove", "sort", "reverse"):
                        blocked = True
                    if isinstance(n, ast.Call) and u(n.func) == "len" and n.args and u(n.args[0]) == T:
                        blocked = True
                    if isinstance(n, (ast.AugAssign,)) and u(n.target) == T:
                        blocked = True
                    if isinstance(n, ast.Name) and n.id == T and isinstance(n.ctx, (ast.Store, ast.Del)):
                        blocked = True
                    if isinstance(n, ast.Subscript) and u(n.value) == T and isinstance(n.slice, ast.UnaryOp):
                        blocked = True        # T[-1]: reads the end
            if blocked:
                continue
            for p_ in puts:
                p_.value.func.value = ast.copy_location(ast.Name(id=T, ctx=ast.Load()), p_.value.func.value)
            blk.remove(st_)
            blk.remove(cons[0])
            return True
    return False


def propagate_block_aliases(fn, accessors=frozenset()):
    """flow-sensitive, block-local form of propagate_aliases for locals that are bound several times (`value_ctx = arg.expression()` in
    one branch, `value_ctx = v.expression()` in another): after `x = <parse-tree accessor chain of a parameter or loop variable>` the
    later statements of the same block read the chain instead of x, up to the first statement that may rebind x or the chain's root"""
    def chain_root(e):
        n_calls = 0
        while True:
            if isinstance(e, ast.Attribute):
                e = e.value
            elif isinstance(e, ast.Call) and not e.args and not e.keywords and isinstance(e.func, ast.Attribute) and e.func.attr in accessors \
                    and e.func.attr not in ("getText", "getChildren", "getChildCount"):
                n_calls += 1
                e = e.func.value
            else:
                break
        return e.id if isinstance(e, ast.Name) and n_calls else None

    def stores_in(node):
        return {n.id for n in ast.walk(node) if isinstance(n, ast.Name) and isinstance(n.ctx, (ast.Store, ast.Del))}

    # context objects: what a handler receives, and the elements of the child lists it iterates
    ctx_names = {a.arg for a in fn.args.posonlyargs + fn.args.args + fn.args.kwonlyargs}
    for n in ast.walk(fn):
        if isinstance(n, ast.For):
            ctx_names |= {x.id for x in ast.walk(n.target) if isinstance(x, ast.Name)}

    def fblock(stmts):
        stmts = list(stmts)
        for i, s in enumerate(stmts):
            if not (isinstance(s, ast.Assign) and len(s.targets) == 1 and isinstance(s.targets[0], ast.Name)):
                continue
            x, v = s.targets[0].id, s.value
            root = chain_root(v)
            if root is None or root == x or root not in ctx_names:
                continue
            sub = _Sub({x: v})
            for j in range(i + 1, len(stmts)):
                st = stores_in(stmts[j])
                if st & {x, root}:
                    break
                stmts[j] = sub.visit(stmts[j])
        return stmts
    fn = _map_blocks(fn, fblock)
    # a local that is no longer read anywhere was only such an alias: its (pure) bindings are dropped, which also restores `elif` chains
    reads = {n.id for n in ast.walk(fn) if isinstance(n, ast.Name) and isinstance(n.ctx, ast.Load)}

    def drop(stmts):
        out = [s for s in stmts if not (isinstance(s, ast.Assign) and len(s.targets) == 1 and isinstance(s.targets[0], ast.Name) and s.targets[0].id not in reads
                                        and chain_root(s.value) in ctx_names)]
        return out or [ast.Pass()]
    return _map_blocks(fn, drop)


def eliminate_temporaries(fn):
    """`x = E` immediately followed by a simple statement that reads x exactly once as a piece of a larger string, where nothing but
    names / constants / attribute loads is evaluated before that read and x is read nowhere else in the function: the temporary is
    replaced by E (`value = f(v); out.append("{}={}".format(k, value))` reads `out.append("{}={}".format(k, f(v)))`)"""
    from .ts import postorder
    params = {a.arg for a in fn.args.posonlyargs + fn.args.args + fn.args.kwonlyargs}
    reads = {}
    for n in ast.walk(fn):
        if isinstance(n, ast.Name) and isinstance(n.ctx, ast.Load):
            reads[n.id] = reads.get(n.id, 0) + 1
    pairs = {}

    def scan(stmts):
        for i in range(len(stmts) - 1):
            a, b = stmts[i], stmts[i + 1]
            if isinstance(a, ast.Assign) and len(a.targets) == 1 and isinstance(a.targets[0], ast.Name) and isinstance(b, (ast.Expr, ast.Assign, ast.Return, ast.Raise, ast.AugAssign)):
                x = a.targets[0].id
                if x in params:
                    continue
                occ = []
                inside_scope = False
                for n in postorder(b):
                    if isinstance(n, ast.Name) and n.id == x and isinstance(n.ctx, ast.Load):
                        occ.append(n)
                if len(occ) != 1 or not _string_uses_only(b, x):
                    continue                   # only temporaries that are a piece of a larger string
                for sc in ast.walk(b):
                    if isinstance(sc, (ast.Lambda, ast.ListComp, ast.SetComp, ast.DictComp, ast.GeneratorExp)) and any(m is occ[0] for m in ast.walk(sc)):
                        inside_scope = True
                if inside_scope:
                    continue
                pure = True
                for n in postorder(b):
                    if n is occ[0]:
                        break
                    if not isinstance(n, (ast.Name, ast.Constant, ast.Attribute, ast.Load, ast.Store, ast.expr_context)):
                        pure = False
                        break
                if isinstance(b, (ast.Assign, ast.AugAssign)) and any(isinstance(n, ast.Name) and n.id == x and isinstance(n.ctx, ast.Store) for n in ast.walk(b)):
                    pure = False
                if pure:
                    pairs.setdefault(x, []).append((stmts, a, b, occ[0]))
        for s_ in stmts:
            for field in ("body", "orelse", "finalbody"):
                sub = getattr(s_, field, None)
                if isinstance(sub, list) and sub and isinstance(sub[0], ast.stmt):
                    scan(sub)
            if isinstance(s_, ast.Try):
                for h in s_.handlers:
                    scan(h.body)
    scan(fn.body)
    for x, lst in pairs.items():
        if reads.get(x, 0) != len(lst):
            continue
        for stmts, a, b, occ in lst:
            if a not in stmts or b not in stmts:
                continue
            new_b = _ReplaceNode(occ, a.value).visit(b)
            i = stmts.index(a)
            stmts[i:i + 2] = [new_b]
    ast.fix_missing_locations(fn)
    return fn


def fold_membership_get(fn):
    """`if K in D: x = D[K] else: x = <fresh empty literal / constant>` and `D[K] if K in D else <...>` are `D.get(K, <...>)` (library model:
    dict.get); K a constant, D a name / attribute chain"""
    def simple_default(e):
        return isinstance(e, ast.Constant) or (isinstance(e, (ast.List, ast.Tuple, ast.Set)) and not e.elts) or (isinstance(e, ast.Dict) and not e.keys) \
            or (isinstance(e, ast.Call) and isinstance(e.func, ast.Name) and e.func.id in ("list", "dict", "tuple", "set") and not e.args and not e.keywords)

    def canon_default(e):
        if isinstance(e, ast.Call):
            return {"list": ast.List(elts=[], ctx=ast.Load()), "dict": ast.Dict(keys=[], values=[]), "tuple": ast.Tuple(elts=[], ctx=ast.Load())}.get(e.func.id, e)
        return e

    def match(test, yes, no):
        """test `K in D` (or `K not in D`, arms swapped by the caller), yes `D[K]`, no a simple default -> D.get(K, no)"""
        if not (isinstance(test, ast.Compare) and len(test.ops) == 1 and isinstance(test.ops[0], ast.In) and isinstance(test.left, ast.Constant)
                and isinstance(test.comparators[0], (ast.Name, ast.Attribute))):
            return None
        d = test.comparators[0]
        if isinstance(yes, ast.Subscript) and u(yes.value) == u(d) and isinstance(yes.slice, ast.Constant) and yes.slice.value == test.left.value and type(yes.slice.value) is type(test.left.value) \
                and simple_default(no):
            args = [copy.deepcopy(test.left)] + ([] if isinstance(no, ast.Constant) and no.value is None else [canon_default(copy.deepcopy(no))])
            return ast.Call(func=ast.Attribute(value=copy.deepcopy(d), attr="get", ctx=ast.Load()), args=args, keywords=[])
        return None

    def swap(test):
        if isinstance(test, ast.Compare) and len(test.ops) == 1 and isinstance(test.ops[0], ast.NotIn):
            return ast.Compare(left=test.left, ops=[ast.In()], comparators=test.comparators)
        return None

    class T(ast.NodeTransformer):
        def visit_IfExp(self, node):
            self.generic_visit(node)
            r = match(node.test, node.body, node.orelse)
            if r is None and swap(node.test) is not None:
                r = match(swap(node.test), node.orelse, node.body)
            return ast.copy_location(r, node) if r is not None else node

        def visit_If(self, node):
            self.generic_visit(node)
            if len(node.body) == 1 and len(node.orelse) == 1 and all(isinstance(x, ast.Assign) and len(x.targets) == 1 and isinstance(x.targets[0], ast.Name) for x in (node.body[0], node.orelse[0])) \
                    and node.body[0].targets[0].id == node.orelse[0].targets[0].id:
                r = match(node.test, node.body[0].value, node.orelse[0].value)
                if r is None and swap(node.test) is not None:
                    r = match(swap(node.test), node.orelse[0].value, node.body[0].value)
                if r is not None:
                    return ast.copy_location(ast.Assign(targets=[ast.Name(id=node.body[0].targets[0].id, ctx=ast.Store())], value=r), node)
            return node
    fn = T().visit(fn)
    # x = <default>; if K in D: x = D[K]
    def fblock(stmts):
        out = []
        i = 0
        while i < len(stmts):
            a = stmts[i]
            b = stmts[i + 1] if i + 1 < len(stmts) else None
            if isinstance(a, ast.Assign) and len(a.targets) == 1 and isinstance(a.targets[0], ast.Name) and simple_default(a.value) and isinstance(b, ast.If) and not b.orelse and len(b.body) == 1 \
                    and isinstance(b.body[0], ast.Assign) and len(b.body[0].targets) == 1 and isinstance(b.body[0].targets[0], ast.Name) and b.body[0].targets[0].id == a.targets[0].id:
                r = match(b.test, b.body[0].value, a.value)
                if r is not None:
                    out.append(ast.copy_location(ast.Assign(targets=[ast.Name(id=a.targets[0].id, ctx=ast.Store())], value=r), a))
                    i += 2
                    continue
            out.append(a)
            i += 1
        return out
    fn = _map_blocks(fn, fblock)
    ast.fix_missing_locations(fn)
    return fn


def normal_form(ix, f, keep):
    """the analysis normal form of one function (DESIGN 15.3).  A pass that meets a tree shape it does not handle is skipped for this
    function (the rules then see the less normalised code and stay inconclusive where they need more) - normalisation never fails a check."""
    consts, single = ix.const_env(f.mod)
    fn = copy.deepcopy(f.node)
    passes = [
        lambda t: canonical_callees(ix, f, t),
        lambda t: specialise_defaults(ix, f, t),
        lambda t: drop_default_arguments(ix, f, t),
        lambda t: expand_with(ix, f, t),
        lambda t: desugar_match(t),
        lambda t: desugar_walrus(t),
        lambda t: dispatch_comprehensions(t),
        lambda t: fold_constants(t, consts, single),
        lambda t: fold_stdlib(ix, f, t, consts, single),
        lambda t: fold_records(ix, f, t),
        lambda t: distribute_selectors(t),
        lambda t: unroll_const_loops(t, consts, single),
        lambda t: materialise_generators(ix, f, t, keep),
        lambda t: expand_maps(ix, f, t, keep),
        lambda t: inline_function(ix, f, keep=keep, fn=t),
        lambda t: hoist_pipeline_calls(t),
        lambda t: merge_set_aliases(t),
        lambda t: propagate_tuple_locals(t),
        lambda t: desugar_match(t),
        lambda t: inline_expressions(ix, f, t, keep=keep),
        lambda t: fold_enum_members(ix, f, t),
        lambda t: fold_constants(t, consts, single),
        lambda t: fold_stdlib(ix, f, t, consts, single),
        lambda t: fold_membership_get(t),
        lambda t: split_unpacking(t),
        lambda t: propagate_aliases(t, ix.accessor_names()),
        lambda t: propagate_block_aliases(t, ix.accessor_names()),
        lambda t: propagate_templates(t),
        lambda t: eliminate_temporaries(t),
        lambda t: scalar_replace_records(ix, f, t),
        lambda t: inline_deferred_lists(t),
        lambda t: fold_library_pairs(t),
        lambda t: drop_identity_stores(t),
        lambda t: resolve_conditional_locals(t, ix.accessor_names()),
        lambda t: guard_form(t),
        lambda t: canonical_locals(ix, f, t),
    ]
    prev = None
    disabled = set()
    rounds = 0
    while rounds < 3:
        backup = copy.deepcopy(fn)
        failed = None
        for i, p_ in enumerate(passes):
            if i in disabled:
                continue
            try:
                fn = p_(fn)
            except (Inconclusive_, RecursionError):
                raise
            except Exception:
                failed = i
                break
        if failed is not None:
            disabled.add(failed)            # redo this round without the pass that could not handle the tree
            fn = backup
            continue
        rounds += 1
        cur = ast.dump(fn)
        if cur == prev:
            break
        prev = cur
    return fn


# ------------------------------------------------------------------------------------------------ diagnostics and annotations (round 11)
LOG_METHODS = frozenset("debug info warning warn error exception critical log".split())
CONSUMERS = frozenset("sorted list tuple set frozenset sum min max any all next dict enumerate zip map filter iter reversed".split())
MUTATORS = frozenset("join pop popitem append extend update clear remove insert setdefault add discard sort reverse send close __next__ write".split())
SAFE_CONTAINER_TESTS = ("dict", "list", "tuple", "str", "set", "frozenset")


def _direct_use(stmt, x):
    """the statement hands the local on as it is: `T = x`, `return x`, or `f(.., x, ..)` called for its effect"""
    v = stmt.value
    if isinstance(stmt, (ast.Assign, ast.Return)):
        return isinstance(v, ast.Name) and v.id == x
    return isinstance(stmt, ast.Expr) and isinstance(v, ast.Call) and any(isinstance(a, ast.Name) and a.id == x for a in v.args)


def strip_annotations(ix):
    """`x: T = v` is `x = v`, `x: T` declares nothing at run time (function bodies; the module level is read through Index.module_globals)"""
    class T(ast.NodeTransformer):
        def visit_AnnAssign(self, n):
            self.generic_visit(n)
            if n.value is None:
                return ast.copy_location(ast.Pass(), n)
            return ast.copy_location(ast.Assign(targets=[n.target], value=n.value), n)
    for q, f in ix.funcs.items():
        if q == f.qual:
            for i, s in enumerate(list(f.node.body)):
                f.node.body[i] = T().visit(s)
            ast.fix_missing_locations(f.node)


def _module_loggers(ix, mod):
    out = set()
    for k, v in ix.module_globals(mod).items():
        if isinstance(v, ast.Call) and u(v.func) in ("logging.getLogger", "getLogger"):
            out.add(k)
    for local, (src_mod, name, level) in ix.imports.get(mod, {}).items():
        if level >= 1 and src_mod in ix.mods:
            v = ix.module_globals(src_mod).get(name)
            if isinstance(v, ast.Call) and u(v.func) in ("logging.getLogger", "getLogger"):
                out.add(local)
    return out


def drop_diagnostics(ix):
    """Logging is not behaviour of the library: statements that only emit log records - `logger.debug(...)`, `if logger.isEnabledFor(..): <such>`,
    calls of package procedures that consist of nothing else - are removed from every function before the rules read it, PROVIDED their
    arguments cannot change anything: no call that consumes an iterator (sorted / list / join ... of a plain name), no mutating method, no
    assignment expression; package helpers called for their text must themselves read only (consumers only under an isinstance test for a
    built-in container).  A record whose arguments do not meet this is left where it is and judged like any other code."""
    loggers = {m: _module_loggers(ix, m) for m in ix.mods}
    if not any(loggers.values()):
        return
    pure_memo = {}
    diag_procs = set()

    def callee(mod, call):
        if isinstance(call.func, ast.Name):
            q = ix.resolve_name(mod, call.func.id)
            return ix.funcs.get(q) if q and q in ix.funcs else None
        return None

    def pure_helper(g, depth):
        """a package function that is called for the text it returns and only reads"""
        if g.qual in pure_memo:
            return pure_memo[g.qual]
        if depth > 3 or g.qual in ix.known:
            return False
        pure_memo[g.qual] = False
        fn = g.node
        params = {a.arg for a in fn.args.posonlyargs + fn.args.args + fn.args.kwonlyargs} | ({fn.args.vararg.arg} if fn.args.vararg else set())
        ok = True
        guarded = set()
        for n in ast.walk(fn):
            if isinstance(n, (ast.If, ast.IfExp)):
                t = n.test
                if isinstance(t, ast.Call) and u(t.func) == "isinstance" and len(t.args) == 2:
                    cls = t.args[1].elts if isinstance(t.args[1], ast.Tuple) else [t.args[1]]
                    if all(u(c) in SAFE_CONTAINER_TESTS for c in cls):
                        for m in ast.walk(n.body if isinstance(n, ast.IfExp) else ast.Module(body=n.body, type_ignores=[])):
                            guarded.add(id(m))
        for n in ast.walk(fn):
            if isinstance(n, (ast.Global, ast.Nonlocal, ast.NamedExpr, ast.Yield, ast.YieldFrom, ast.Await, ast.Delete, ast.AugAssign, ast.With, ast.Raise)):
                ok = False
            if isinstance(n, (ast.Assign, ast.For)):
                for t in (n.targets if isinstance(n, ast.Assign) else [n.target]):
                    if not all(isinstance(x, (ast.Name, ast.Tuple)) for x in ast.walk(t) if not isinstance(x, (ast.Store, ast.Load))):
                        ok = False
            if isinstance(n, ast.For) and isinstance(n.iter, ast.Name) and id(n) not in guarded and not (fn.args.vararg and n.iter.id == fn.args.vararg.arg):
                ok = False
            if isinstance(n, ast.Call) and not nonconsuming_call(g.mod, n, fn, depth + 1, guarded):
                ok = False
        pure_memo[g.qual] = ok
        return ok

    safe_memo = {}

    def safe_names(fn):
        """names of fn that certainly hold a re-iterable container: *args / **kwargs, and locals every binding of which is a display, a
        comprehension or a dict / list / set / tuple / sorted call"""
        if id(fn) in safe_memo:
            return safe_memo[id(fn)]
        out = set()
        if fn.args.vararg:
            out.add(fn.args.vararg.arg)
        if fn.args.kwarg:
            out.add(fn.args.kwarg.arg)
        binds = {}
        for n in ast.walk(fn):
            if isinstance(n, ast.Assign):
                for t in n.targets:
                    for x in ast.walk(t):
                        if isinstance(x, ast.Name) and isinstance(x.ctx, ast.Store):
                            binds.setdefault(x.id, []).append(n.value if isinstance(t, ast.Name) else None)
            elif isinstance(n, (ast.For, ast.comprehension)):
                for x in ast.walk(n.target):
                    if isinstance(x, ast.Name) and isinstance(x.ctx, ast.Store):
                        binds.setdefault(x.id, []).append(None)
            elif isinstance(n, (ast.AugAssign, ast.NamedExpr)) and isinstance(n.target, ast.Name):
                binds.setdefault(n.target.id, []).append(None)
        params = {a.arg for a in fn.args.posonlyargs + fn.args.args + fn.args.kwonlyargs}
        for k, vs in binds.items():
            if k not in params and all(isinstance(v, (ast.Dict, ast.List, ast.Set, ast.Tuple, ast.ListComp, ast.DictComp, ast.SetComp)) or
                                       (isinstance(v, ast.Call) and u(v.func) in ("dict", "list", "set", "tuple", "sorted")) for v in vs):
                out.add(k)
        safe_memo[id(fn)] = out
        return out

    def nonconsuming_call(mod, n, fn, depth, guarded=()):
        name = u(n.func)
        short = n.func.attr if isinstance(n.func, ast.Attribute) else name
        if isinstance(n.func, ast.Name) and name in CONSUMERS:
            if id(n) in guarded:
                return True
            return all(isinstance(a, (ast.Constant, ast.Tuple, ast.List, ast.Dict, ast.Set, ast.ListComp, ast.DictComp, ast.SetComp, ast.Attribute, ast.Subscript, ast.Call, ast.GeneratorExp))
                       or (isinstance(a, ast.Name) and a.id in safe_names(fn)) for a in n.args)
        if isinstance(n.func, ast.Attribute) and short in MUTATORS and not (short == "join" and isinstance(n.func.value, ast.Constant) and n.args and (
                isinstance(n.args[0], (ast.ListComp, ast.List, ast.Tuple, ast.Call, ast.GeneratorExp)) or (isinstance(n.args[0], ast.Name) and n.args[0].id in safe_names(fn)))):
            return False
        if isinstance(n.func, ast.Name):
            g = callee(mod, n)
            if g is not None:
                return g.qual in diag_procs or pure_helper(g, depth)
        return True

    def nonconsuming(mod, e, fn):
        for n in ast.walk(e):
            if isinstance(n, (ast.NamedExpr, ast.Yield, ast.YieldFrom, ast.Await, ast.Lambda)):
                return False
            if isinstance(n, (ast.ListComp, ast.SetComp, ast.DictComp, ast.GeneratorExp)):
                for gen in n.generators:
                    if isinstance(gen.iter, ast.Name) and gen.iter.id not in safe_names(fn):
                        return False
            if isinstance(n, ast.Call) and not nonconsuming_call(mod, n, fn, 0):
                return False
        return True

    def is_diag(mod, s, fn):
        if isinstance(s, ast.Expr) and isinstance(s.value, ast.Call):
            c = s.value
            if isinstance(c.func, ast.Attribute) and isinstance(c.func.value, ast.Name) and c.func.value.id in loggers.get(mod, ()) and c.func.attr in LOG_METHODS:
                return all(nonconsuming(mod, a, fn) for a in list(c.args) + [k.value for k in c.keywords])
            g = callee(mod, c)
            if g is not None and g.qual in diag_procs:
                return all(nonconsuming(mod, a, fn) for a in list(c.args) + [k.value for k in c.keywords])
            return False
        if isinstance(s, ast.If) and not s.orelse:
            t = s.test
            if enabled_test(mod, t) or (isinstance(t, ast.Name) and t.id in flags(mod, fn)):
                return all(is_diag(mod, x, fn) or isinstance(x, ast.Pass) for x in s.body)
        return False

    def enabled_test(mod, t):
        return isinstance(t, ast.Call) and isinstance(t.func, ast.Attribute) and isinstance(t.func.value, ast.Name) and t.func.value.id in loggers.get(mod, ()) and t.func.attr == "isEnabledFor"

    flag_memo = {}

    def flags(mod, fn):
        """locals bound exactly once, to `logger.isEnabledFor(...)`"""
        if id(fn) not in flag_memo:
            binds = {}
            for n in ast.walk(fn):
                if isinstance(n, ast.Assign):
                    for t in n.targets:
                        for x in ast.walk(t):
                            if isinstance(x, ast.Name) and isinstance(x.ctx, ast.Store):
                                binds.setdefault(x.id, []).append(n.value if isinstance(t, ast.Name) else None)
                elif isinstance(n, (ast.For, ast.comprehension, ast.AugAssign, ast.NamedExpr)):
                    for x in ast.walk(n.target):
                        if isinstance(x, ast.Name) and isinstance(x.ctx, ast.Store):
                            binds.setdefault(x.id, []).append(None)
            flag_memo[id(fn)] = {k for k, vs in binds.items() if len(vs) == 1 and vs[0] is not None and enabled_test(mod, vs[0])}
        return flag_memo[id(fn)]

    def body_sans_doc(fn):
        b = fn.body
        return b[1:] if b and isinstance(b[0], ast.Expr) and isinstance(b[0].value, ast.Constant) and isinstance(b[0].value.value, str) else b

    # procedures that consist of diagnostics only (fixpoint: one may call another)
    changed = True
    while changed:
        changed = False
        for q, g in ix.funcs.items():
            if q != g.qual or q in diag_procs or q in ix.known or g.cls:
                continue
            b = body_sans_doc(g.node)
            if b and all(is_diag(g.mod, s, g.node) or isinstance(s, ast.Pass) or (isinstance(s, ast.Return) and s.value is None) for s in b):
                diag_procs.add(q)
                changed = True

    dropped_refs = set()

    def strip(mod, stmts, fn):
        out = []
        for s in stmts:
            if is_diag(mod, s, fn):
                dropped_refs.update((mod, x.id) for x in ast.walk(s) if isinstance(x, ast.Name))
                continue
            for fld in ("body", "orelse", "finalbody"):
                if isinstance(getattr(s, fld, None), list) and not isinstance(s, (ast.FunctionDef, ast.AsyncFunctionDef, ast.ClassDef)):
                    new = strip(mod, getattr(s, fld), fn)
                    if not new and fld == "body":
                        new = [ast.copy_location(ast.Pass(), s)]
                    setattr(s, fld, new)
            if isinstance(s, ast.Try):
                for h in s.handlers:
                    h.body = strip(mod, h.body, fn) or [ast.copy_location(ast.Pass(), h)]
            # `if c: <only diagnostics>` has become `if c: pass`: the test is kept only if it can do something
            if isinstance(s, ast.If) and all(isinstance(x, ast.Pass) for x in s.body) and not s.orelse and nonconsuming(mod, s.test, fn) and not any(isinstance(x, ast.Call) and callee(mod, x) is not None and not pure_helper(callee(mod, x), 0) for x in ast.walk(s.test)):
                continue
            out.append(s)
        return out

    def tidy(fn, fl):
        used = {}
        for n in ast.walk(fn):
            if isinstance(n, ast.Name) and isinstance(n.ctx, ast.Load):
                used[n.id] = used.get(n.id, 0) + 1
        pairs = {}
        for n in ast.walk(fn):
            for fld in ("body", "orelse", "finalbody"):
                b = getattr(n, fld, None)
                if isinstance(b, list):
                    for a_, b_ in zip(b, b[1:]):
                        if isinstance(a_, ast.Assign) and len(a_.targets) == 1 and isinstance(a_.targets[0], ast.Name) and isinstance(b_, (ast.Assign, ast.Return, ast.Expr)) and b_.value is not None \
                                and sum(1 for y in ast.walk(b_) if isinstance(y, ast.Name) and y.id == a_.targets[0].id) == 1 \
                                and _direct_use(b_, a_.targets[0].id):
                            pairs[a_.targets[0].id] = pairs.get(a_.targets[0].id, 0) + 1
        # loads of a name inside a loop (or comprehension) that binds that very name belong to that binding, not to a temporary of the same name
        def rebound_loads(node, bound, acc):
            if isinstance(node, ast.For):
                b2 = bound | {x_.id for x_ in ast.walk(node.target) if isinstance(x_, ast.Name)}
                for c_ in node.body:
                    rebound_loads(c_, b2, acc)
                for c_ in node.orelse:
                    rebound_loads(c_, bound, acc)
                rebound_loads(node.iter, bound, acc)
                return
            if isinstance(node, ast.Name) and isinstance(node.ctx, ast.Load) and node.id in bound:
                acc[node.id] = acc.get(node.id, 0) + 1
            for c_ in ast.iter_child_nodes(node):
                rebound_loads(c_, bound, acc)
        own = {}
        rebound_loads(fn, set(), own)
        raw = dict(used)
        for k_, c_ in own.items():
            # only names that are temporaries elsewhere: the loop-bound uses are not counted against them
            if used.get(k_):
                used[k_] -= c_
        for n in ast.walk(fn):
            if isinstance(n, ast.ExceptHandler) and n.name and not raw.get(n.name):
                n.name = None
            # a counter that only the records read: `for i, x in enumerate(X)` is `for x in X`
            if isinstance(n, ast.For) and isinstance(n.target, ast.Tuple) and len(n.target.elts) == 2 and isinstance(n.target.elts[0], ast.Name) and not raw.get(n.target.elts[0].id) \
                    and isinstance(n.iter, ast.Call) and u(n.iter.func) == "enumerate" and len(n.iter.args) == 1 and not n.iter.keywords:
                n.target, n.iter = n.target.elts[1], n.iter.args[0]
            for fld in ("body", "orelse", "finalbody"):
                b = getattr(n, fld, None)
                if not isinstance(b, list) or not b or not isinstance(b[0], ast.stmt):
                    continue
                out = []
                i = 0
                while i < len(b):
                    s_ = b[i]
                    if isinstance(s_, ast.Assign) and len(s_.targets) == 1 and isinstance(s_.targets[0], ast.Name):
                        x = s_.targets[0].id
                        if x in fl and not raw.get(x):
                            i += 1
                            continue
                        nxt = b[i + 1] if i + 1 < len(b) else None
                        if x in temps and used.get(x) == pairs.get(x) and isinstance(nxt, (ast.Return, ast.Expr, ast.Assign)) and nxt.value is not None \
                                and sum(1 for y in ast.walk(nxt) if isinstance(y, ast.Name) and y.id == x) == 1 \
                                and _direct_use(nxt, x):
                            val_ = s_.value

                            class Sub(ast.NodeTransformer):
                                def visit_Name(self, n_):
                                    return val_ if (n_.id == x and isinstance(n_.ctx, ast.Load)) else n_
                            nxt.value = Sub().visit(nxt.value)
                            out.append(nxt)
                            i += 2
                            continue
                        if x in temps and used.get(x) == pairs.get(x) and isinstance(nxt, ast.Assign) and isinstance(nxt.value, ast.Name) and nxt.value.id == x and len(nxt.targets) == 1 \
                                and not any(isinstance(y, (ast.Call, ast.Name)) and not isinstance(y.ctx if isinstance(y, ast.Name) else ast.Load(), ast.Store) and isinstance(y, ast.Call) for y in ast.walk(nxt.targets[0])):
                            out.append(ast.copy_location(ast.Assign(targets=nxt.targets, value=s_.value), nxt))
                            i += 2
                            continue
                    out.append(s_)
                    i += 1
                setattr(n, fld, out or [ast.copy_location(ast.Pass(), n)])

    for q, g in ix.funcs.items():
        if q != g.qual or q in diag_procs:
            continue
        before = {}
        for n in ast.walk(g.node):
            if isinstance(n, ast.Name) and isinstance(n.ctx, ast.Load):
                before[n.id] = before.get(n.id, 0) + 1
        fl = flags(g.mod, g.node)
        g.node.body = strip(g.mod, g.node.body, g.node) or [ast.copy_location(ast.Pass(), g.node)]
        after = {}
        for n in ast.walk(g.node):
            if isinstance(n, ast.Name) and isinstance(n.ctx, ast.Load):
                after[n.id] = after.get(n.id, 0) + 1
        # a local that was read by a record and by the one statement that stores it is a temporary the record introduced
        temps = {k for k, c in before.items() if 0 < after.get(k, 0) < c}
        if temps or fl or before != after:
            tidy(g.node, fl)
            ast.fix_missing_locations(g.node)
    ix.diag_procs = diag_procs
    # the procedures themselves, and the read-only helpers that only they called, are not part of the analysed program any more
    for q in diag_procs:
        g = ix.funcs[q]
        dropped_refs.update((g.mod, x.id) for x in ast.walk(g.node) if isinstance(x, ast.Name))
    gone = set(diag_procs)
    changed = True
    while changed:
        changed = False
        live = set()
        for q, g in ix.funcs.items():
            if q == g.qual and q not in gone:
                live.update(x.id for x in ast.walk(g.node) if isinstance(x, ast.Name))
                live.update(x.attr for x in ast.walk(g.node) if isinstance(x, ast.Attribute))
        for (mod, name) in sorted(dropped_refs):
            q = ix.resolve_name(mod, name)
            g = ix.funcs.get(q) if q and q in ix.funcs else None
            if g is None or g.qual in gone or g.qual in ix.known or g.cls or g.name in live:
                continue
            if pure_helper(g, 0):
                gone.add(g.qual)
                dropped_refs.update((g.mod, x.id) for x in ast.walk(g.node) if isinstance(x, ast.Name))
                changed = True
    for q in [q for q, g in ix.funcs.items() if g.qual in gone]:
        del ix.funcs[q]


def merge_set_aliases(fn):
    """`h = s` (left by the inliner for a helper parameter that the helper updates with `|=`), where every binding of `s` in the function is a
    set (set(...) call, display or comprehension) and `h` is afterwards only read or updated in place (`h |= ...`, `h.add(...)`): `h` IS `s` -
    an in-place update of a set keeps the object - so `h` is replaced by `s`."""
    binds = {}
    for n in ast.walk(fn):
        if isinstance(n, ast.Assign):
            for t in n.targets:
                if isinstance(t, ast.Name):
                    binds.setdefault(t.id, []).append(n)
                else:
                    for x in ast.walk(t):
                        if isinstance(x, ast.Name) and isinstance(x.ctx, ast.Store):
                            binds.setdefault(x.id, []).append(None)
        elif isinstance(n, (ast.For, ast.comprehension)):
            for x in ast.walk(n.target):
                if isinstance(x, ast.Name) and isinstance(x.ctx, ast.Store):
                    binds.setdefault(x.id, []).append(None)
        elif isinstance(n, ast.AugAssign) and isinstance(n.target, ast.Name):
            binds.setdefault(n.target.id, []).append(n)

    def is_set(v):
        return isinstance(v, (ast.Set, ast.SetComp)) or (isinstance(v, ast.Call) and u(v.func) == "set")

    ren = {}
    for h, bs in binds.items():
        plain = [b for b in bs if isinstance(b, ast.Assign)]
        if not h.startswith("_h") or len(plain) != 1 or any(b is None for b in bs) or not isinstance(plain[0].value, ast.Name):
            continue
        if not all(isinstance(b, ast.Assign) or (isinstance(b, ast.AugAssign) and isinstance(b.op, ast.BitOr)) for b in bs):
            continue
        s_ = plain[0].value.id
        sb = binds.get(s_, [])
        if sb and all(isinstance(b, ast.Assign) and is_set(b.value) or (isinstance(b, ast.AugAssign) and isinstance(b.op, ast.BitOr)) for b in sb):
            ren[h] = (s_, plain[0])
    if not ren:
        return fn

    class T(ast.NodeTransformer):
        def visit_Assign(self, n):
            if any(n is a for _, a in ren.values()):
                return None
            return self.generic_visit(n)

        def visit_Name(self, n):
            if n.id in ren:
                return ast.copy_location(ast.Name(id=ren[n.id][0], ctx=n.ctx), n)
            return n
    fn = T().visit(fn)
    ast.fix_missing_locations(fn)
    return fn


def propagate_tuple_locals(fn, accessors=()):
    """After a helper that returns `(f, ctx)` or `None` has been read into its caller, each arm binds the result to a known value and the
    code that follows tests and unpacks it: `x = (A, B); if x is not None: a, b = x; use(a(b))`.  With the value known the test is decided,
    the unpacking becomes `a = A; b = B`, and a name bound to a function or to an accessor call is replaced in the statement that follows."""
    def simple(e):
        if isinstance(e, ast.Name):
            return True
        if isinstance(e, ast.Attribute):
            return simple(e.value)
        if isinstance(e, ast.Call) and not e.args and not e.keywords and isinstance(e.func, ast.Attribute):
            return simple(e.func.value)
        return False

    def decide(test, x, val):
        t = " ".join(u(test).split())
        known_none = isinstance(val, ast.Constant) and val.value is None
        if t == "%s is not None" % x:
            return not known_none
        if t == "%s is None" % x:
            return known_none
        if t == x:
            return (not known_none) and bool(val.elts)
        if t == "not %s" % x:
            return known_none or not val.elts
        return None

    changed = [False]

    def block(stmts):
        out = []
        known = {}
        queue = list(stmts)
        while queue:
            s = queue.pop(0)
            # a ladder whose arms only choose the value of one local, followed by the test of that local: the test moves into every arm
            if isinstance(s, ast.If) and queue and isinstance(queue[0], ast.If):
                arms, cur = [], s
                while True:
                    arms.append(cur.body)
                    if len(cur.orelse) == 1 and isinstance(cur.orelse[0], ast.If):
                        cur = cur.orelse[0]
                    else:
                        arms.append(cur.orelse)
                        break
                xs = set()
                okl = True
                for a in arms:
                    if len(a) == 1 and isinstance(a[0], ast.Assign) and len(a[0].targets) == 1 and isinstance(a[0].targets[0], ast.Name) and (
                            (isinstance(a[0].value, ast.Tuple) and all(simple(e) for e in a[0].value.elts)) or (isinstance(a[0].value, ast.Constant) and a[0].value.value is None)):
                        xs.add(a[0].targets[0].id)
                    else:
                        okl = False
                if okl and len(xs) == 1:
                    x = next(iter(xs))
                    if decide(queue[0].test, x, ast.Constant(value=None)) is not None:
                        follow = queue.pop(0)
                        for a in arms:
                            a.append(copy.deepcopy(follow))
                        changed[0] = True
            if isinstance(s, ast.If):
                hit = None
                for x, val in known.items():
                    d = decide(s.test, x, val)
                    if d is not None:
                        hit = d
                        break
                if hit is not None:
                    queue = list(s.body if hit else s.orelse) + queue
                    changed[0] = True
                    continue
            if isinstance(s, ast.Assign) and len(s.targets) == 1 and isinstance(s.targets[0], ast.Tuple) and isinstance(s.value, ast.Name) and s.value.id in known \
                    and isinstance(known[s.value.id], ast.Tuple) and len(known[s.value.id].elts) == len(s.targets[0].elts) and all(isinstance(t, ast.Name) for t in s.targets[0].elts):
                new = [ast.copy_location(ast.Assign(targets=[ast.Name(id=t.id, ctx=ast.Store())], value=copy.deepcopy(v)), s) for t, v in zip(s.targets[0].elts, known[s.value.id].elts)]
                queue = new + queue
                changed[0] = True
                continue
            # a name just bound to a function or an accessor call: replace it in the statement that follows
            if isinstance(s, ast.Assign) and len(s.targets) == 1 and isinstance(s.targets[0], ast.Name) and simple(s.value) and s.targets[0].id in subst_ok and queue:
                name, val = s.targets[0].id, s.value
                # collect the run of such bindings, then substitute all of them in the first statement after the run
                run = [(name, val)]
                k = 0
                while k < len(queue) and isinstance(queue[k], ast.Assign) and len(queue[k].targets) == 1 and isinstance(queue[k].targets[0], ast.Name) and simple(queue[k].value) \
                        and queue[k].targets[0].id in subst_ok:
                    run.append((queue[k].targets[0].id, queue[k].value))
                    k += 1
                if k < len(queue) and not isinstance(queue[k], (ast.For, ast.While, ast.If, ast.Try, ast.With, ast.FunctionDef)):
                    m = dict(run)

                    class S(ast.NodeTransformer):
                        def visit_Name(self, n):
                            if isinstance(n.ctx, ast.Load) and n.id in m:
                                changed[0] = True
                                return copy.deepcopy(m[n.id])
                            return n
                    queue[k] = S().visit(queue[k])
            if isinstance(s, ast.Assign) and len(s.targets) == 1 and isinstance(s.targets[0], ast.Name):
                x = s.targets[0].id
                if isinstance(s.value, ast.Tuple) and all(simple(e) for e in s.value.elts) or (isinstance(s.value, ast.Constant) and s.value.value is None):
                    known[x] = s.value
                else:
                    known.pop(x, None)
            elif not isinstance(s, (ast.Expr, ast.Pass)):
                for n in ast.walk(s):
                    if isinstance(n, ast.Name) and isinstance(n.ctx, ast.Store):
                        known.pop(n.id, None)
            for fld in ("body", "orelse", "finalbody"):
                b = getattr(s, fld, None)
                if isinstance(b, list) and b and isinstance(b[0], ast.stmt) and not isinstance(s, (ast.FunctionDef, ast.ClassDef)):
                    setattr(s, fld, block(b) or [ast.copy_location(ast.Pass(), s)])
            if isinstance(s, ast.Try):
                for h in s.handlers:
                    h.body = block(h.body) or [ast.copy_location(ast.Pass(), h)]
            out.append(s)
        return out

    # names that are only ever bound to a function reference or to an accessor call, and unpacked from known tuples
    binds = {}
    for n in ast.walk(fn):
        if isinstance(n, ast.Assign):
            for t in n.targets:
                if isinstance(t, ast.Name):
                    binds.setdefault(t.id, []).append(n.value)
                else:
                    for x in ast.walk(t):
                        if isinstance(x, ast.Name) and isinstance(x.ctx, ast.Store):
                            binds.setdefault(x.id, []).append("unpack")
        elif isinstance(n, (ast.For, ast.comprehension, ast.AugAssign, ast.NamedExpr, ast.withitem, ast.ExceptHandler)):
            tgt = getattr(n, "target", None) or getattr(n, "optional_vars", None)
            if tgt is not None and not isinstance(tgt, str):
                for x in ast.walk(tgt):
                    if isinstance(x, ast.Name) and isinstance(x.ctx, ast.Store):
                        binds.setdefault(x.id, []).append(None)
    params = {a.arg for a in fn.args.posonlyargs + fn.args.args + fn.args.kwonlyargs}
    # `a, b = (x, y)` with plain elements is two bindings (left to right; nothing is evaluated on the right)
    class Split(ast.NodeTransformer):
        def visit_Assign(self, n):
            if len(n.targets) == 1 and isinstance(n.targets[0], ast.Tuple) and isinstance(n.value, ast.Tuple) and len(n.targets[0].elts) == len(n.value.elts) \
                    and all(isinstance(t, ast.Name) for t in n.targets[0].elts) and all(isinstance(v, ast.Name) for v in n.value.elts) \
                    and not ({t.id for t in n.targets[0].elts} & {v.id for v in n.value.elts}):
                return [ast.copy_location(ast.Assign(targets=[ast.Name(id=t.id, ctx=ast.Store())], value=v), n) for t, v in zip(n.targets[0].elts, n.value.elts)]
            # `a, b = xs[0]` (an entry of a list of pairs, read twice without effect) is `a = xs[0][0]; b = xs[0][1]`
            if len(n.targets) == 1 and isinstance(n.targets[0], ast.Tuple) and all(isinstance(t, ast.Name) for t in n.targets[0].elts) and isinstance(n.value, ast.Subscript) \
                    and isinstance(n.value.value, ast.Name) and isinstance(n.value.slice, ast.Constant) and isinstance(n.value.slice.value, int) \
                    and n.value.value.id not in {t.id for t in n.targets[0].elts}:
                return [ast.copy_location(ast.Assign(targets=[ast.Name(id=t.id, ctx=ast.Store())],
                                                     value=ast.Subscript(value=copy.deepcopy(n.value), slice=ast.Constant(value=i), ctx=ast.Load())), n)
                        for i, t in enumerate(n.targets[0].elts)]
            return n
    fn = Split().visit(fn)
    ast.fix_missing_locations(fn)
    has_tuple_local = any(isinstance(v, ast.Tuple) for vs in binds.values() for v in vs if isinstance(v, ast.AST))
    if not has_tuple_local:
        return fn
    subst_ok = {k for k, vs in binds.items() if k not in params and all(v == "unpack" or (isinstance(v, ast.AST) and simple(v)) for v in vs) and any(v == "unpack" for v in vs)}
    for _ in range(3):
        changed[0] = False
        fn.body = block(fn.body)
        # after the unpacking has been split, the unpacked names are plain bindings: recompute
        binds2 = {}
        for n in ast.walk(fn):
            if isinstance(n, ast.Assign):
                for t in n.targets:
                    for x in ast.walk(t):
                        if isinstance(x, ast.Name) and isinstance(x.ctx, ast.Store):
                            binds2.setdefault(x.id, []).append(n.value if isinstance(t, ast.Name) else None)
        if not changed[0]:
            break
    # the selector local itself is dead once its tests are decided and its unpackings split
    loads = {}
    for n in ast.walk(fn):
        if isinstance(n, ast.Name) and isinstance(n.ctx, ast.Load):
            loads[n.id] = loads.get(n.id, 0) + 1

    def sweep(stmts):
        out = []
        for s in stmts:
            if isinstance(s, ast.Assign) and len(s.targets) == 1 and isinstance(s.targets[0], ast.Name) and not loads.get(s.targets[0].id) and s.targets[0].id not in params and (
                    (isinstance(s.value, ast.Tuple) and all(simple(e) for e in s.value.elts)) or (isinstance(s.value, ast.Constant) and s.value.value is None) or
                    (simple(s.value) and s.targets[0].id in subst_ok)):
                continue
            for fld in ("body", "orelse", "finalbody"):
                b = getattr(s, fld, None)
                if isinstance(b, list) and b and isinstance(b[0], ast.stmt) and not isinstance(s, (ast.FunctionDef, ast.ClassDef)):
                    nb = sweep(b)
                    setattr(s, fld, nb if (nb or fld != "body") else [ast.copy_location(ast.Pass(), s)])
            out.append(s)
        return out
    fn.body = sweep(fn.body)
    ast.fix_missing_locations(fn)
    return fn


def hoist_pipeline_calls(fn):
    """`parser = blackbirdParser(CommonTokenStream(blackbirdLexer(data)))` is the three constructions it nests: each gets its own binding, in
    evaluation order, so that the pipeline rules (C10.2) read one lexer, one token stream and one parser however they are spelled"""
    STAGES = ("blackbirdLexer", "CommonTokenStream", "blackbirdParser")

    def stage(e):
        return u(e.func).split(".")[-1] if isinstance(e, ast.Call) and u(e.func).split(".")[-1] in STAGES else None

    counter = [0]

    def rewrite(stmts):
        out = []
        for s in stmts:
            for fld in ("body", "orelse", "finalbody"):
                b = getattr(s, fld, None)
                if isinstance(b, list) and b and isinstance(b[0], ast.stmt) and not isinstance(s, (ast.FunctionDef, ast.ClassDef)):
                    setattr(s, fld, rewrite(b))
            if isinstance(s, ast.Assign) and stage(s.value) and s.value.args and stage(s.value.args[0]):
                pre = []

                def lift(call):
                    inner = call.args[0]
                    if stage(inner):
                        if inner.args and stage(inner.args[0]):
                            lift(inner)
                        counter[0] += 1
                        name = "_%s%d" % ({"blackbirdLexer": "lexer", "CommonTokenStream": "stream", "blackbirdParser": "parser"}[stage(inner)], counter[0])
                        pre.append(ast.copy_location(ast.Assign(targets=[ast.Name(id=name, ctx=ast.Store())], value=inner), s))
                        call.args[0] = ast.copy_location(ast.Name(id=name, ctx=ast.Load()), inner)
                lift(s.value)
                out.extend(pre)
            out.append(s)
        return out
    fn.body = rewrite(fn.body)
    ast.fix_missing_locations(fn)
    return fn


def fold_enum_members(ix, f, fn):
    """`Kind.MEMBER.value` / `.name` of an Enum class of the package whose member is bound to a constant is that constant"""
    def enum_class(name):
        q = ix.resolve_name(f.mod, name)
        c = ix.classes.get(q) if q else None
        node = getattr(c, "node", c)
        if isinstance(node, ast.ClassDef) and any(u(b).split(".")[-1] in ("Enum", "IntEnum", "StrEnum", "Flag") for b in node.bases):
            return node
        return None

    class T(ast.NodeTransformer):
        def visit_Attribute(self, n):
            self.generic_visit(n)
            if n.attr in ("value", "name") and isinstance(n.value, ast.Attribute) and isinstance(n.value.value, ast.Name) and isinstance(n.ctx, ast.Load):
                c = enum_class(n.value.value.id)
                if c is not None:
                    for s in c.body:
                        if isinstance(s, ast.Assign) and len(s.targets) == 1 and isinstance(s.targets[0], ast.Name) and s.targets[0].id == n.value.attr:
                            if n.attr == "name":
                                return ast.copy_location(ast.Constant(value=s.targets[0].id), n)
                            v = s.value
                            if isinstance(v, ast.Constant):
                                return ast.copy_location(ast.Constant(value=v.value), n)
                            if isinstance(v, (ast.Tuple, ast.BinOp, ast.JoinedStr)):
                                try:
                                    return ast.copy_location(ast.Constant(value=ast.literal_eval(v)), n)
                                except Exception:
                                    if isinstance(v, ast.BinOp):
                                        return ast.copy_location(copy.deepcopy(v), n)
            return n
    fn = T().visit(fn)
    ast.fix_missing_locations(fn)
    return fn
