"""Normalisation helpers that make the structural rules insensitive to equivalent spellings:
 - fmt_parts: one canonical form for str.format / f-string / '+' concatenation / '%' formatting
 - single_return: the returned expression of a helper whose body is a single `return <expr>` (after docstring / pure local bindings)
 - inline_call: substitute the arguments of such a helper call into its returned expression
"""
import ast
import copy
import re

from .index import u


def fmt_parts(e, names=None):
    """-> list of ('lit', text) | ('expr', ast node [, conversion/format spec text]) or None if e is not a string-building expression.
    names: optional {identifier: ast node} used to look through named string constants (module-level message templates)"""
    if isinstance(e, ast.Constant) and isinstance(e.value, str):
        return [("lit", e.value)]
    if isinstance(e, ast.Name) and names and e.id in names and isinstance(names[e.id], (ast.Constant, ast.JoinedStr, ast.BinOp)):
        return fmt_parts(names[e.id], None)
    if isinstance(e, ast.JoinedStr):
        out = []
        for v in e.values:
            if isinstance(v, ast.Constant):
                out.append(("lit", str(v.value)))
            elif isinstance(v, ast.FormattedValue):
                if v.conversion not in (-1, 115) or v.format_spec is not None:     # !s is the default for our purposes; anything else is kept opaque
                    out.append(("expr", v.value, "conv"))
                else:
                    out.append(("expr", v.value))
        return merge(out)
    if isinstance(e, ast.Call) and isinstance(e.func, ast.Attribute) and e.func.attr == "format" and not e.keywords:
        base = fmt_parts(e.func.value, names)
        if base is None or any(k != "lit" for k, *_ in base):
            return None
        text = "".join(p[1] for p in base)
        if any(isinstance(a, ast.Starred) for a in e.args):
            # "{}[{}, {}]".format(name, *A.shape): keep the starred argument as one opaque hole sequence
            return starred_format(text, e.args)
        out = []
        auto = 0
        pos = 0
        for m in re.finditer(r"\{(\d*)\}", text):
            out.append(("lit", text[pos:m.start()]))
            idx = int(m.group(1)) if m.group(1) else auto
            auto += 1
            if idx >= len(e.args):
                return None
            out.append(("expr", e.args[idx]))
            pos = m.end()
        out.append(("lit", text[pos:]))
        if "{" in re.sub(r"\{(\d*)\}", "", text).replace("{{", "").replace("}}", ""):
            return None
        return merge(out)
    if isinstance(e, ast.BinOp) and isinstance(e.op, ast.Add):
        a, b = fmt_parts(e.left, names), fmt_parts(e.right, names)
        if a is not None and b is not None:
            return merge(a + b)
        if a is not None and is_stringy(e.right):
            return merge(a + [("expr", e.right)])
        if b is not None and is_stringy(e.left):
            return merge([("expr", e.left)] + b)
    return None


def starred_format(text, args):
    out = []
    pos = 0
    flat = []
    for a in args:
        flat.append(("star", a.value) if isinstance(a, ast.Starred) else ("one", a))
    fields = list(re.finditer(r"\{(\d*)\}", text))
    ai = 0
    for k, m in enumerate(fields):
        out.append(("lit", text[pos:m.start()]))
        pos = m.end()
        if ai < len(flat) and flat[ai][0] == "one":
            out.append(("expr", flat[ai][1]))
            ai += 1
        else:
            # remaining fields are fed by the starred sequence
            node = flat[ai][1] if ai < len(flat) else None
            if node is None:
                return None
            j = k - sum(1 for f in flat[:ai] if f[0] == "one")
            out.append(("expr", ast.Subscript(value=node, slice=ast.Constant(value=j), ctx=ast.Load())))
    out.append(("lit", text[pos:]))
    return merge(out)


def is_stringy(e):
    return isinstance(e, (ast.Name, ast.Call, ast.Attribute, ast.Subscript))


def merge(parts):
    out = []
    for p in parts:
        if p[0] == "lit":
            if not p[1]:
                continue
            if out and out[-1][0] == "lit":
                out[-1] = ("lit", out[-1][1] + p[1])
                continue
        out.append(p)
    return out


def canon(parts):
    """hashable canonical form: literal text and unparsed hole expressions"""
    return tuple((p[0], p[1] if p[0] == "lit" else " ".join(u(p[1]).split())) + tuple(p[2:]) for p in parts)


def canon_text(e):
    p = fmt_parts(e)
    if p is None:
        return None
    return "".join(x[1] if x[0] == "lit" else "{%s}" % " ".join(u(x[1]).split()) for x in p)


def single_return(fn):
    """(returned expression, {local: value expr}) for a function whose body is docstring? + simple local bindings + one return"""
    body = [s for s in fn.body if not (isinstance(s, ast.Expr) and isinstance(s.value, ast.Constant))]
    binds = {}
    for s in body[:-1]:
        if isinstance(s, ast.Assign) and len(s.targets) == 1 and isinstance(s.targets[0], ast.Name):
            binds[s.targets[0].id] = s.value
        else:
            return None, None
    if body and isinstance(body[-1], ast.Return) and body[-1].value is not None:
        return body[-1].value, binds
    return None, None


class _Sub(ast.NodeTransformer):
    def __init__(self, mapping):
        self.mapping = mapping

    def visit_Name(self, node):
        if isinstance(node.ctx, ast.Load) and node.id in self.mapping:
            return copy.deepcopy(self.mapping[node.id])
        return node


def inline_call(ix, mod, call, depth=0):
    """if `call` invokes a package helper with a single-return body, the returned expression with parameters replaced by the call's arguments"""
    if not isinstance(call, ast.Call) or depth > 3:
        return None
    q = None
    if isinstance(call.func, ast.Name):
        q = ix.resolve_name(mod, call.func.id)
    elif isinstance(call.func, ast.Attribute) and isinstance(call.func.value, ast.Name) and call.func.value.id == "self":
        cands = [k for k, f in ix.funcs.items() if f.cls and f.name == call.func.attr and f.mod == mod]
        q = cands[0] if len(cands) == 1 else None
    if q not in ix.funcs:
        return None
    f = ix.funcs[q]
    ret, binds = single_return(f.node)
    if ret is None:
        return None
    params = [p for p in f.params if p != "self"]
    if len(call.args) > len(params) or any(isinstance(a, ast.Starred) for a in call.args):
        return None
    mapping = dict(zip(params, call.args))
    for k in call.keywords:
        if k.arg is None:
            return None
        mapping[k.arg] = k.value
    if set(params) - set(mapping):
        defaults = f.node.args.defaults
        for p, d in zip(params[len(params) - len(defaults):], defaults):
            mapping.setdefault(p, d)
    if set(params) - set(mapping):
        return None
    # local bindings first (in order), then parameters
    expr = copy.deepcopy(ret)
    for name in reversed(list(binds)):
        expr = _Sub({name: binds[name]}).visit(expr)
    expr = _Sub(mapping).visit(expr)
    ast.fix_missing_locations(expr)
    return expr, f
