"""Normalisation helpers that make the structural rules insensitive to equivalent spellings:
 - fmt_parts: one canonical form for str.format / f-string / '+' concatenation / '%' formatting
 - single_return: the returned expression of a helper whose body is a single `return <expr>` (after docstring / pure local bindings)
 - inline_call: substitute the arguments of such a helper call into its returned expression
"""
import ast
import copy
import re

from .index import u


def fmt_parts(e, names=None):
    """-> list of ('lit', text) | ('expr', ast node [, conversion/format spec text]) or None if e is not a string-building expression.
    names: optional {identifier: ast node} used to look through named string constants (module-level message templates)"""
    if isinstance(e, ast.Constant) and isinstance(e.value, str):
        return [("lit", e.value)]
    if isinstance(e, ast.Name) and names and e.id in names and isinstance(names[e.id], (ast.Constant, ast.JoinedStr, ast.BinOp)):
        return fmt_parts(names[e.id], None)
    if isinstance(e, ast.JoinedStr):
        out = []
        for v in e.values:
            if isinstance(v, ast.Constant):
                out.append(("lit", str(v.value)))
            elif isinstance(v, ast.FormattedValue):
                if v.conversion not in (-1, 115) or v.format_spec is not None:     # !s is the default for our purposes; anything else is kept opaque
                    out.append(("expr", v.value, "conv"))
                else:
                    inner = fmt_parts(v.value, names) if isinstance(v.value, (ast.JoinedStr, ast.Constant, ast.Name)) or _is_format_call(v.value) else None
                    if inner is not None:
                        out.extend(inner)             # a string spliced into a string
                    else:
                        out.append(("expr", v.value))
        return merge(out)
    if isinstance(e, ast.Call) and isinstance(e.func, ast.Attribute) and e.func.attr == "format" and not e.keywords:
        base = fmt_parts(e.func.value, names)
        if base is None or any(k != "lit" for k, *_ in base):
            return None
        text = "".join(p[1] for p in base)
        if any(isinstance(a, ast.Starred) for a in e.args):
            # "{}[{}, {}]".format(name, *A.shape): keep the starred argument as one opaque hole sequence
            return starred_format(text, e.args)
        out = []
        auto = 0
        pos = 0
        for m in re.finditer(r"\{(\d*)\}", text):
            out.append(("lit", text[pos:m.start()]))
            idx = int(m.group(1)) if m.group(1) else auto
            auto += 1
            if idx >= len(e.args):
                return None
            a_ = e.args[idx]
            inner = fmt_parts(a_, names) if isinstance(a_, ast.JoinedStr) or _is_format_call(a_) or (isinstance(a_, ast.Constant) and isinstance(a_.value, str)) else None
            if inner is not None:
                out.extend(inner)
            else:
                out.append(("expr", a_))
            pos = m.end()
        out.append(("lit", text[pos:]))
        if "{" in re.sub(r"\{(\d*)\}", "", text).replace("{{", "").replace("}}", ""):
            return None
        return merge(out)
    if isinstance(e, ast.BinOp) and isinstance(e.op, ast.Add):
        a, b = fmt_parts(e.left, names), fmt_parts(e.right, names)
        if a is not None and b is not None:
            return merge(a + b)
        if a is not None and is_stringy(e.right):
            return merge(a + [("expr", e.right)])
        if b is not None and is_stringy(e.left):
            return merge([("expr", e.left)] + b)
    return None


def _is_format_call(e):
    return isinstance(e, ast.Call) and isinstance(e.func, ast.Attribute) and e.func.attr == "format" and isinstance(e.func.value, (ast.Constant, ast.JoinedStr))


def propagate_templates(fn):
    """copy propagation of local string templates: a local bound exactly once in the function to a string-building expression
    (literal, f-string, literal.format(...), concatenation with a literal) whose own free names are never rebound is substituted
    into its later uses, so `prefix = f"... {line}"; raise E(f"{prefix} ...")` reads like the one-piece message"""
    stores = {}
    for n in ast.walk(fn):
        if isinstance(n, ast.Name) and isinstance(n.ctx, (ast.Store, ast.Del)):
            stores[n.id] = stores.get(n.id, 0) + 1
        elif isinstance(n, ast.arg):
            stores[n.arg] = stores.get(n.arg, 0) + 1
    cands = {}
    for n in ast.walk(fn):
        if isinstance(n, ast.Assign) and len(n.targets) == 1 and isinstance(n.targets[0], ast.Name) and stores.get(n.targets[0].id) == 1:
            v = n.value
            parts = fmt_parts(v)
            if parts is None or not any(p[0] == "lit" for p in parts) or not any(p[0] == "expr" for p in parts):
                continue
            free = {x.id for x in ast.walk(v) if isinstance(x, ast.Name)}
            if all(stores.get(x, 0) <= 1 for x in free):
                cands[n.targets[0].id] = (n, v)
    if not cands:
        return fn

    class S(ast.NodeTransformer):
        def visit_Name(self, node):
            if isinstance(node.ctx, ast.Load) and node.id in cands:
                a, v = cands[node.id]
                if (node.lineno, node.col_offset) > (a.end_lineno or a.lineno, a.end_col_offset or 0):
                    return ast.copy_location(copy.deepcopy(v), node)
            return node
    for _ in range(3):
        fn = S().visit(fn)
    ast.fix_missing_locations(fn)
    return fn


def starred_format(text, args):
    out = []
    pos = 0
    flat = []
    for a in args:
        flat.append(("star", a.value) if isinstance(a, ast.Starred) else ("one", a))
    fields = list(re.finditer(r"\{(\d*)\}", text))
    ai = 0
    for k, m in enumerate(fields):
        out.append(("lit", text[pos:m.start()]))
        pos = m.end()
        if ai < len(flat) and flat[ai][0] == "one":
            out.append(("expr", flat[ai][1]))
            ai += 1
        else:
            # remaining fields are fed by the starred sequence
            node = flat[ai][1] if ai < len(flat) else None
            if node is None:
                return None
            j = k - sum(1 for f in flat[:ai] if f[0] == "one")
            out.append(("expr", ast.Subscript(value=node, slice=ast.Constant(value=j), ctx=ast.Load())))
    out.append(("lit", text[pos:]))
    return merge(out)


def is_stringy(e):
    return isinstance(e, (ast.Name, ast.Call, ast.Attribute, ast.Subscript))


def merge(parts):
    out = []
    for p in parts:
        if p[0] == "lit":
            if not p[1]:
                continue
            if out and out[-1][0] == "lit":
                out[-1] = ("lit", out[-1][1] + p[1])
                continue
        out.append(p)
    return out


def canon(parts):
    """hashable canonical form: literal text and unparsed hole expressions"""
    return tuple((p[0], p[1] if p[0] == "lit" else " ".join(u(p[1]).split())) + tuple(p[2:]) for p in parts)


def canon_text(e):
    p = fmt_parts(e)
    if p is None:
        return None
    return "".join(x[1] if x[0] == "lit" else "{%s}" % " ".join(u(x[1]).split()) for x in p)


def single_return(fn):
    """(returned expression, {local: value expr}) for a function whose body is docstring? + simple local bindings + one return"""
    body = [s for s in fn.body if not (isinstance(s, ast.Expr) and isinstance(s.value, ast.Constant))]
    binds = {}
    for s in body[:-1]:
        if isinstance(s, ast.Assign) and len(s.targets) == 1 and isinstance(s.targets[0], ast.Name):
            binds[s.targets[0].id] = s.value
        else:
            return None, None
    if body and isinstance(body[-1], ast.Return) and body[-1].value is not None:
        return body[-1].value, binds
    return None, None


class _Sub(ast.NodeTransformer):
    def __init__(self, mapping):
        self.mapping = mapping

    def visit_Name(self, node):
        if isinstance(node.ctx, ast.Load) and node.id in self.mapping:
            return copy.deepcopy(self.mapping[node.id])
        return node


def inline_call(ix, mod, call, depth=0):
    """if `call` invokes a package helper with a single-return body, the returned expression with parameters replaced by the call's arguments"""
    if not isinstance(call, ast.Call) or depth > 3:
        return None
    q = None
    if isinstance(call.func, ast.Name):
        q = ix.resolve_name(mod, call.func.id)
    elif isinstance(call.func, ast.Attribute) and isinstance(call.func.value, ast.Name) and call.func.value.id == "self":
        cands = [k for k, f in ix.funcs.items() if f.cls and f.name == call.func.attr and f.mod == mod]
        q = cands[0] if len(cands) == 1 else None
    if q not in ix.funcs:
        return None
    f = ix.funcs[q]
    ret, binds = single_return(f.node)
    if ret is None:
        return None
    params = [p for p in f.params if p != "self"]
    if len(call.args) > len(params) or any(isinstance(a, ast.Starred) for a in call.args):
        return None
    mapping = dict(zip(params, call.args))
    for k in call.keywords:
        if k.arg is None:
            return None
        mapping[k.arg] = k.value
    if set(params) - set(mapping):
        defaults = f.node.args.defaults
        for p, d in zip(params[len(params) - len(defaults):], defaults):
            mapping.setdefault(p, d)
    if set(params) - set(mapping):
        return None
    # local bindings first (in order), then parameters
    expr = copy.deepcopy(ret)
    for name in reversed(list(binds)):
        expr = _Sub({name: binds[name]}).visit(expr)
    expr = _Sub(mapping).visit(expr)
    ast.fix_missing_locations(expr)
    return expr, f


def local_names(fn):
    """names bound anywhere in the function (assignments, loop / comprehension / with targets), excluding parameters"""
    out = set()
    for n in ast.walk(fn):
        if isinstance(n, ast.Name) and isinstance(n.ctx, ast.Store):
            out.add(n.id)
    return out


def alpha(nodes, locals_):
    """source text of the statement / expression list with local names replaced by v0, v1, ... in order of first occurrence"""
    mapping = {}

    class R(ast.NodeTransformer):
        def visit_Name(self, node):
            if node.id in locals_:
                if node.id not in mapping:
                    mapping[node.id] = "v%d" % len(mapping)
                return ast.copy_location(ast.Name(id=mapping[node.id], ctx=node.ctx), node)
            return node
    out = []
    for n in nodes:
        m = R().visit(copy.deepcopy(n))
        out.append(" ".join(u(m).split()))
    return out


def alpha_of_source(src, locals_):
    return alpha(ast.parse(src).body, locals_)


# ------------------------------------------------------------------------------------------------ statement-level helper inlining
class _Rename(ast.NodeTransformer):
    def __init__(self, names, exprs):
        self.names, self.exprs = names, exprs      # names: local -> new local name ; exprs: parameter -> argument expression

    def visit_Name(self, node):
        if node.id in self.exprs and isinstance(node.ctx, ast.Load):
            return copy.deepcopy(self.exprs[node.id])
        if node.id in self.names:
            return ast.copy_location(ast.Name(id=self.names[node.id], ctx=node.ctx), node)
        return node


def _stored_names(node):
    out = set()
    for n in ast.walk(node):
        if isinstance(n, ast.Name) and isinstance(n.ctx, ast.Store):
            out.add(n.id)
        elif isinstance(n, ast.arg):
            out.add(n.arg)
    return out


def _shallow_returns(stmts):
    out = []
    todo = list(stmts)
    while todo:
        s = todo.pop()
        if isinstance(s, (ast.FunctionDef, ast.AsyncFunctionDef, ast.ClassDef, ast.Lambda)):
            continue
        if isinstance(s, ast.Return):
            out.append(s)
        todo.extend(ast.iter_child_nodes(s))
    return out


def _has_return(node):
    return bool(_shallow_returns([node]))


class _Abort(Exception):
    pass


def _tailify(stmts, k, after):
    """statements equivalent to: run stmts; at `return e` continue with k(e); when the block falls through continue with `after`
    (early returns turn into if/else nesting; the continuation is duplicated into the branches that reach it)"""
    out = []
    for i, s in enumerate(stmts):
        if isinstance(s, ast.Return):
            return out + k(s.value)
        if isinstance(s, ast.Raise):
            return out + [s]
        if isinstance(s, ast.If) and _has_return(s):
            rest = _tailify(stmts[i + 1:], k, after)
            body = _tailify(s.body, k, rest)
            orelse = _tailify(s.orelse, k, rest)
            return out + [ast.copy_location(ast.If(test=s.test, body=body or [ast.Pass()], orelse=orelse), s)]
        if _has_return(s):
            raise _Abort()              # return from inside a loop / try / with / match: not a tail shape
        out.append(s)
    return out + copy.deepcopy(after)


# ------------------------------------------------------------------------------------------------ match statements -> if chains
def desugar_match(fn):
    """`match x: case C(): ... case A() | B() if g: ... case "lit": ... case _: ...`  ->  if/elif chain over isinstance / == tests.
    Only matches whose subject is a plain name/attribute and whose patterns are of those forms are rewritten."""
    def test_of(subject, pat):
        if isinstance(pat, ast.MatchClass) and not pat.patterns and not pat.kwd_patterns:
            return ast.Call(func=ast.Name(id="isinstance", ctx=ast.Load()), args=[copy.deepcopy(subject), copy.deepcopy(pat.cls)], keywords=[])
        if isinstance(pat, ast.MatchValue):
            return ast.Compare(left=copy.deepcopy(subject), ops=[ast.Eq()], comparators=[copy.deepcopy(pat.value)])
        if isinstance(pat, ast.MatchSingleton):
            return ast.Compare(left=copy.deepcopy(subject), ops=[ast.Is()], comparators=[ast.Constant(value=pat.value)])
        if isinstance(pat, ast.MatchOr):
            subs = [test_of(subject, q) for q in pat.patterns]
            if any(t is None for t in subs):
                return None
            if all(isinstance(t, ast.Call) for t in subs):
                return ast.Call(func=ast.Name(id="isinstance", ctx=ast.Load()), args=[copy.deepcopy(subject), ast.Tuple(elts=[t.args[1] for t in subs], ctx=ast.Load())], keywords=[])
            return ast.BoolOp(op=ast.Or(), values=subs)
        if isinstance(pat, ast.MatchAs) and pat.pattern is None and pat.name is None:
            return True
        return None

    class T(ast.NodeTransformer):
        def visit_Match(self, node):
            self.generic_visit(node)
            if not isinstance(node.subject, (ast.Name, ast.Attribute)):
                return node
            arms = []
            for c in node.cases:
                t = test_of(node.subject, c.pattern)
                if t is None:
                    return node
                if c.guard is not None:
                    t = c.guard if t is True else ast.BoolOp(op=ast.And(), values=[t, c.guard])
                arms.append((t, c.body))
            chain = None
            for t, body in reversed(arms):
                if t is True:
                    chain = list(body)
                else:
                    chain = [ast.If(test=t, body=list(body), orelse=chain or [])]
            if chain is None:
                return node
            for c in chain:
                ast.copy_location(c, node)
                ast.fix_missing_locations(c)
            return chain

    fn = T().visit(fn)
    ast.fix_missing_locations(fn)
    return fn


# ------------------------------------------------------------------------------------------------ loops over constant tables
def unroll_const_loops(fn, consts, single=frozenset(), limit=64):
    """`for a, b in TABLE: body` with TABLE a literal tuple/list (in place, or a module constant assigned once) and a body without
    break/continue/rebinding of the loop names  ->  the body repeated with the row's literals substituted.  `getattr(x, "name")` with a
    constant name is folded to x.name.  Exact for such loops: iteration order and early returns are preserved."""
    class Fold(ast.NodeTransformer):
        def visit_Call(self, node):
            self.generic_visit(node)
            if isinstance(node.func, ast.Name) and node.func.id == "getattr" and len(node.args) == 2 and isinstance(node.args[1], ast.Constant) \
                    and isinstance(node.args[1].value, str) and node.args[1].value.isidentifier() and not node.keywords:
                return ast.copy_location(ast.Attribute(value=node.args[0], attr=node.args[1].value, ctx=ast.Load()), node)
            return node

    class U(ast.NodeTransformer):
        def visit_For(self, node):
            self.generic_visit(node)
            it = node.iter
            if isinstance(it, ast.Name) and it.id in consts and it.id in single:
                it = consts[it.id]
            if not isinstance(it, (ast.Tuple, ast.List)) or node.orelse or len(it.elts) > limit or not it.elts:
                return node
            names = [node.target.id] if isinstance(node.target, ast.Name) else (
                [e.id for e in node.target.elts] if isinstance(node.target, ast.Tuple) and all(isinstance(e, ast.Name) for e in node.target.elts) else None)
            if names is None:
                return node
            for n in ast.walk(node):
                if n is not node and isinstance(n, (ast.Break, ast.Continue, ast.For, ast.While)):
                    return node
            for b in node.body:
                if _stored_names(b) & set(names):
                    return node
            out = []
            for row in it.elts:
                if isinstance(row, ast.Starred):
                    return node
                if isinstance(node.target, ast.Name):
                    vals = [row]
                else:
                    if not isinstance(row, (ast.Tuple, ast.List)) or len(row.elts) != len(names):
                        return node
                    vals = row.elts
                ren = _Rename({}, dict(zip(names, vals)))
                for b in node.body:
                    out.append(Fold().visit(ren.visit(copy.deepcopy(b))))
            for o in out:
                ast.copy_location(o, node)
                ast.fix_missing_locations(o)
            return out

    fn = U().visit(fn)
    ast.fix_missing_locations(fn)
    return fn


def _calls_outside_scopes(node):
    """Call nodes of a simple statement that are evaluated exactly when the statement runs (not inside lambdas / comprehensions /
    the short-circuited operands of and/or/if-expressions)"""
    out = []

    def walk(n, cond):
        if isinstance(n, (ast.Lambda, ast.ListComp, ast.SetComp, ast.DictComp, ast.GeneratorExp, ast.FunctionDef, ast.ClassDef)):
            return
        if isinstance(n, ast.Call) and not cond:
            out.append(n)
        if isinstance(n, ast.BoolOp):
            walk(n.values[0], cond)
            for v in n.values[1:]:
                walk(v, True)
            return
        if isinstance(n, ast.IfExp):
            walk(n.test, cond)
            walk(n.body, True)
            walk(n.orelse, True)
            return
        for c in ast.iter_child_nodes(n):
            walk(c, cond)
    walk(node, False)
    return out


class _ReplaceNode(ast.NodeTransformer):
    def __init__(self, old, new):
        self.old, self.new = old, new

    def visit(self, node):
        if node is self.old:
            return self.new
        return self.generic_visit(node)


def inline_function(ix, f, depth=2, _stack=(), keep=frozenset()):
    """deep copy of f.node in which calls to package helpers the rules do not know by name are replaced by the helper's body: the
    statement containing the call becomes the continuation of every `return` of the helper (tail shapes only: returns inside loops,
    try blocks, recursion, generators, *args are left alone)"""
    fn = copy.deepcopy(f.node)
    counter = [0]
    caller_names = _stored_names(fn)

    def resolve(call):
        g = None
        if isinstance(call.func, ast.Name):
            q = ix.resolve_name(f.mod, call.func.id)
            g = ix.funcs.get(q)
        elif isinstance(call.func, ast.Attribute) and isinstance(call.func.value, ast.Name) and call.func.value.id in ("self", "cls") and f.cls:
            g = ix.funcs.get("%s.%s" % (f.cls, call.func.attr))
        if g is None or g.qual == f.qual or g.qual in _stack or g.qual in keep or g.name.startswith("__"):
            return None
        decos = [u(d) for d in g.node.decorator_list]
        if any(d not in ("staticmethod", "classmethod") for d in decos):
            return None
        for n in ast.walk(g.node):
            if isinstance(n, (ast.Yield, ast.YieldFrom, ast.Global, ast.Nonlocal, ast.Await)):
                return None
            if isinstance(n, ast.Call) and isinstance(n.func, ast.Name) and n.func.id == g.name:
                return None
        return g

    def expand(call, k, same_name=None):
        """k(value expr or None) -> statements continuing after the helper returned that value"""
        g = resolve(call)
        if g is None:
            return None
        gnode = desugar_match(copy.deepcopy(getattr(g, "orig", None) or g.node))
        body = [s for s in gnode.body if not (isinstance(s, ast.Expr) and isinstance(s.value, ast.Constant))]
        if not body:
            return None
        params = [a.arg for a in gnode.args.posonlyargs + gnode.args.args]
        if g.cls and "staticmethod" not in [u(d) for d in gnode.decorator_list] and params and params[0] in ("self", "cls"):
            params = params[1:]
        if any(isinstance(a, ast.Starred) for a in call.args) or any(kw.arg is None for kw in call.keywords) or gnode.args.vararg or gnode.args.kwarg:
            return None
        mapping = dict(zip(params, call.args))
        kwonly = [a.arg for a in gnode.args.kwonlyargs]
        for kw in call.keywords:
            mapping[kw.arg] = kw.value
        defaults = gnode.args.defaults
        for p_, d in zip(params[len(params) - len(defaults):], defaults):
            mapping.setdefault(p_, d)
        for a, d in zip(gnode.args.kwonlyargs, gnode.args.kw_defaults):
            if d is not None:
                mapping.setdefault(a.arg, d)
        params = params + kwonly
        if set(params) - set(mapping) or len(call.args) > len(params):
            return None
        helper_stores = set()
        for s in body:
            helper_stores |= _stored_names(s)
        counter[0] += 1
        names, exprs, pre = {}, {}, []
        for p_ in params:
            if p_ in helper_stores:
                new = p_ if p_ not in caller_names else "_h%d_%s" % (counter[0], p_)
                names[p_] = new
                pre.append(ast.Assign(targets=[ast.Name(id=new, ctx=ast.Store())], value=copy.deepcopy(mapping[p_]), lineno=call.lineno, col_offset=0))
            else:
                exprs[p_] = mapping[p_]
        for nm in helper_stores - set(params):
            if nm in caller_names and nm != same_name:
                names[nm] = "_h%d_%s" % (counter[0], nm)
        ren = _Rename(names, exprs)
        body = [ren.visit(copy.deepcopy(s)) for s in body]
        try:
            out = pre + _tailify(body, k, k(None))
        except _Abort:
            return None
        for s in out:
            ast.fix_missing_locations(s)
            caller_names.update(_stored_names(s))
        return out or [ast.Pass(lineno=call.lineno, col_offset=0)]

    def simple_expand(s):
        if isinstance(s, ast.Expr) and isinstance(s.value, ast.Call):
            r = expand(s.value, lambda v: [])
            if r is not None:
                return r
        if isinstance(s, ast.Assign) and len(s.targets) == 1 and isinstance(s.value, ast.Call) and resolve(s.value) is not None:
            tgt = s.targets[0]

            def k(v):
                if isinstance(v, ast.Name) and isinstance(tgt, ast.Name) and v.id == tgt.id:
                    return []
                return [ast.copy_location(ast.Assign(targets=[copy.deepcopy(tgt)], value=v if v is not None else ast.Constant(value=None)), s)]
            return expand(s.value, k, same_name=tgt.id if isinstance(tgt, ast.Name) else None)
        if isinstance(s, (ast.Expr, ast.Assign, ast.AugAssign, ast.Return, ast.AnnAssign)):
            for call in _calls_outside_scopes(s):
                # k works on a copy of s: locate the call by its position in the walk
                idx = [i for i, n in enumerate(ast.walk(s)) if n is call][0]

                def k(v, idx=idx):
                    c = copy.deepcopy(s)
                    tgt = list(ast.walk(c))[idx]
                    return [_ReplaceNode(tgt, v if v is not None else ast.Constant(value=None)).visit(c)]
                rep = expand(call, k)
                if rep is not None:
                    return rep
        return None

    def block(stmts, d):
        out = []
        for s in stmts:
            rep = simple_expand(s) if d > 0 else None
            if rep is not None:
                out.extend(block(rep, d - 1))
                continue
            for field in ("body", "orelse", "finalbody"):
                sub = getattr(s, field, None)
                if isinstance(sub, list) and sub and isinstance(sub[0], ast.stmt):
                    setattr(s, field, block(sub, d))
            if isinstance(s, ast.Try):
                for h in s.handlers:
                    h.body = block(h.body, d)
            if isinstance(s, ast.Match):
                for c in s.cases:
                    c.body = block(c.body, d)
            out.append(s)
        return out

    fn.body = block(fn.body, depth)
    ast.fix_missing_locations(fn)
    return fn
