"""T - serializer template analysis (DESIGN 4.7): regular languages of rendered values vs the token/slot languages of the grammar.

Shape classes describe what `"{}".format(x)` yields for a value of each kind (library model, finite values only).  They and the
slot forms are written in ANTLR lexer syntax and compiled, together with the grammar's own lexer rules, into character NFAs;
a rendering language L is accepted for a slot when L is included in the slot's form language (decided on the automata)."""
import copy
from collections import deque

from ..report import Inconclusive
from ..gram import g4, nfa, model as gm

SHAPES = r"""
fragment SH_UINT    : [0-9]+ ;
fragment SH_INT     : '-'? [0-9]+ ;
fragment SH_UFLOAT  : [0-9]+ '.' [0-9]+ | [0-9]+ ('.' [0-9]+)? 'e' ('+'|'-') [0-9]+ ;
fragment SH_FLOAT   : '-'? SH_UFLOAT ;
fragment SH_BOOL    : 'True' | 'False' ;
fragment SH_CPART   : [0-9]+ ('.' [0-9]+)? ('e' ('+'|'-') [0-9]+)? ;
fragment SH_COMPLEX : '(' '-'? SH_CPART ('+'|'-') SH_CPART 'j' ')' | '-'? SH_CPART 'j' ;
fragment SH_SIGN    : '+' | '-' ;
fragment SH_TEXT    : (~["\n\r])* ;
fragment SH_NAME    : [A-Za-z] [0-9A-Za-z_]* ;
fragment SH_PNAME   : 'p' [0-9]+ ;
fragment SH_ANAME   : 'A' [0-9]+ ;
fragment SH_VERSION : [0-9]+ '.' [0-9]+ ;
fragment SH_DEVICE  : [0-9A-Za-z._]+ ;
fragment SH_ANYTEXT : (~[\n])* ;
fragment SH_PARG    : '\u0001' ;
fragment SH_KARG    : '\u0002' ;
"""
FORMS = r"""
fragment F_INT      : '-'? INT ;
fragment F_FLOAT    : '-'? FLOAT ;
fragment F_COMPLEX  : COMPLEX | '(' COMPLEX ')' ;
fragment F_BOOL     : BOOL ;
fragment F_STR      : STR ;
fragment F_NAME     : NAME ;
fragment F_VERSION  : FLOAT ;
fragment F_DEVICE   : NAME | DEVICE ;
"""
# kind -> shape of "{}".format(value)   (library model; validated against the installed libraries by the thorough tier)
FORMAT_SHAPE = {"PyInt": "SH_INT", "NpInt": "SH_INT", "PyBool": "SH_BOOL", "NpBool": "SH_BOOL", "PyFloat": "SH_FLOAT", "NpFloat": "SH_FLOAT",
                "PyComplex": "SH_COMPLEX", "NpComplex": "SH_COMPLEX", "PyStr": "SH_TEXT"}
# kind -> (form the rendering must belong to, forms it must NOT belong to: it would read back as another kind)
READ_FORM = {"PyInt": ("F_INT", ()), "NpInt": ("F_INT", ()), "PyBool": ("F_BOOL", ()), "NpBool": ("F_BOOL", ()), "PyFloat": ("F_FLOAT", ("F_INT",)), "NpFloat": ("F_FLOAT", ("F_INT",)),
             "PyComplex": ("F_COMPLEX", ()), "NpComplex": ("F_COMPLEX", ()), "PyStr": ("F_STR", ()), "PName": ("F_NAME", ()), "NdArray": ("F_NAME", ())}


class Lang:
    def __init__(self, G):
        self.G = copy.copy(G)
        self.G.R = dict(G.R)
        self.G.lidx = dict(G.lidx)
        name, rules = g4.P(g4.lex("grammar shapes;\n" + SHAPES + FORMS)).grammar()
        for r in rules:
            self.G.R[r.name] = r
            self.G.lidx[r.name] = -1
        self.cache = {}

    def of_rule(self, name):
        if name not in self.G.R:
            raise Inconclusive("unknown language %s" % name)
        return gm.lexer_rule_nfa(self.G, self.G.R[name], inline=True)

    def of_pieces(self, pieces):
        """pieces: list of ('lit', text) | ('hole', shape name) | ('alt', [pieces, ...])  -> NFA of the concatenation"""
        def items_of(ps):
            items = []
            for p_ in ps:
                kind, v = p_[0], p_[1]
                if kind == "lit":
                    if v:
                        items.append(g4.Lit(v))
                elif kind == "alt":
                    items.append(g4.Alt([g4.Seq(items_of(a)) for a in v], [None] * len(v), [None] * len(v)))
                elif kind == "rep":
                    # ('rep', element pieces, separator pieces): element (separator element)*
                    elt, sep = items_of(v), items_of(p_[2])
                    items.append(g4.Alt([g4.Seq(elt)], [None], [None]))
                    items.append(g4.Rep(g4.Alt([g4.Seq(sep + elt)], [None], [None]), "*"))
                else:
                    items.append(g4.Ref(v))
            return items
        rule = g4.Rule("tmp", g4.Alt([g4.Seq(items_of(pieces))], [None], [None]))
        return gm.lexer_rule_nfa(self.G, rule, inline=True)

    def of_expr(self, text):
        """language given in lexer syntax, e.g.  "'[' F_INT (', ' F_INT)* ']'" """
        name, rules = g4.P(g4.lex("grammar t;\nfragment TMP : %s ;" % text)).grammar()
        return gm.lexer_rule_nfa(self.G, rules[0], inline=True)


def union(a, b):
    n = nfa.NFA()
    s = n.new()
    n.start = s
    for x in (a, b):
        off = n.n
        for st in range(x.n):
            n.new()
        for st in range(x.n):
            for t in x.eps[st]:
                n.add_eps(off + st, off + t)
            for (y, t) in x.edges[st]:
                n.add(off + st, y, off + t)
        n.add_eps(s, off + x.start)
        n.accept |= {off + t for t in x.accept}
    return n


def clone(x):
    n = nfa.NFA()
    for st in range(x.n):
        n.new()
    for st in range(x.n):
        n.eps[st] = list(x.eps[st])
        n.edges[st] = list(x.edges[st])
    n.start = x.start
    n.accept = set(x.accept)
    return n


def included(a, b):
    """None if L(a) is a subset of L(b), else a shortest string of L(a) - L(b)"""
    a, b = clone(a), clone(b)
    ab = union(a, b)
    ats = gm.atomise(ab, b)
    res = nfa.equivalent(ab, b)
    if res is None:
        return None
    w, side = res
    return "".join(chr(ats[y[1]][0]) if ats[y[1]][0] >= 32 else "\\x%02x" % ats[y[1]][0] for y in w)


def intersect_witness(a, b):
    """a shortest string in L(a) & L(b), or None"""
    a, b = clone(a), clone(b)
    ats = gm.atomise(a, b)
    sa, sb = a.closure({a.start}), b.closure({b.start})
    seen = {(sa, sb)}
    q = deque([(sa, sb, ())])
    while q:
        x, y, w = q.popleft()
        if (x & a.accept) and (y & b.accept):
            return "".join(chr(ats[c[1]][0]) for c in w)
        for c in a.syms(x) & b.syms(y):
            nx, ny = a.step(x, c), b.step(y, c)
            if nx and ny and (nx, ny) not in seen:
                seen.add((nx, ny))
                q.append((nx, ny, w + (c,)))
    return None
