"""GRD helper - finite-domain abstract evaluation of guard *expressions* (DESIGN 4.5 GRD).

A guard such as `bb.parameters != set(operation["kwargs"])` or `isinstance(b, (int, np.integer))` is evaluated, by an own
evaluator over the expression's syntax tree, on every element of a small finite model (pairs of small sets, value kinds, ...).
The result is the guard's truth table on that model, which is compared with the table the property requires.  Only expressions
are evaluated (never statements, never code of /repo); anything outside the supported operator set is Inconclusive.
"""
import ast

from ..report import Inconclusive
from .index import u


class ModelError(Exception):
    """the evaluated expression raises on this model element (e.g. IndexError on an empty string)"""


class Kind:
    """abstract value kind with the real class relations (np.float64 IS a float, np.complex128 IS a complex, np.int64 is NOT an int, bool IS an int)"""

    def __init__(self, name, classes, imag_zero=True, integral=False, extra=None):
        self.name, self.classes, self.imag_zero, self.integral = name, frozenset(classes), imag_zero, integral
        self.extra = dict(extra or {})          # model attributes of this element (e.g. free_symbols of a symbolic value)

    def with_attrs(self, **kw):
        return Kind(self.name, self.classes, self.imag_zero, self.integral, dict(self.extra, **kw))

    # a model element standing for the symbol named n compares (and hashes) like n, so that `value in params` / `{value} <= params`
    # mean what they mean for the SymPy symbol when symbols are modelled by their names
    def __eq__(self, other):
        if isinstance(other, str) and self.extra.get("symbol") is not None:
            return self.extra["symbol"] == other
        return self is other

    def __hash__(self):
        if self.extra.get("symbol") is not None:
            return hash(self.extra["symbol"])
        return id(self) >> 4

    def __repr__(self):
        return self.name


NUMBER = {"object", "numbers.Number", "Number"}
KINDS = {
    "PyInt": Kind("PyInt", {"int", "numbers.Integral", "numbers.Real", "numbers.Complex"} | NUMBER, integral=True),
    "PyBool": Kind("PyBool", {"bool", "int", "numbers.Integral", "numbers.Real", "numbers.Complex"} | NUMBER, integral=True),
    "PyFloat": Kind("PyFloat", {"float", "numbers.Real", "numbers.Complex"} | NUMBER),
    "PyComplex": Kind("PyComplex", {"complex", "numbers.Complex"} | NUMBER, imag_zero=False),
    "PyComplex0": Kind("PyComplex0", {"complex", "numbers.Complex"} | NUMBER, imag_zero=True),
    "NpInt": Kind("NpInt", {"np.int64", "np.integer", "np.signedinteger", "np.number", "np.generic", "numbers.Integral", "numbers.Real", "numbers.Complex"} | NUMBER, integral=True),
    "NpFloat": Kind("NpFloat", {"np.float64", "np.floating", "np.inexact", "np.number", "np.generic", "float", "numbers.Real", "numbers.Complex"} | NUMBER),
    "NpComplex": Kind("NpComplex", {"np.complex128", "np.complexfloating", "np.inexact", "np.number", "np.generic", "complex", "numbers.Complex"} | NUMBER, imag_zero=False),
    "NpComplex0": Kind("NpComplex0", {"np.complex128", "np.complexfloating", "np.inexact", "np.number", "np.generic", "complex", "numbers.Complex"} | NUMBER, imag_zero=True),
    "PyStr": Kind("PyStr", {"str", "object"}),
    "Sym": Kind("Sym", {"sym.Expr", "sym.Basic", "sympy.Expr", "sym.Symbol?", "object"}),
    "NdArray": Kind("NdArray", {"np.ndarray", "object"}),
}
COMPLEX_KINDS = ("PyComplex", "PyComplex0", "NpComplex", "NpComplex0")
_SYM_BASE = {"sym.Expr", "sym.Basic", "sympy.Expr", "sympy.Basic", "object"}
SYM_KINDS = {
    "Symbol": Kind("Sym", _SYM_BASE | {"sym.Symbol", "sympy.Symbol", "Symbol", "sym.Atom", "sym.AtomicExpr"}),
    "Add": Kind("Sym", _SYM_BASE | {"sym.Add", "sympy.Add", "sym.AssocOp"}),
    "Mul": Kind("Sym", _SYM_BASE | {"sym.Mul", "sympy.Mul", "sym.AssocOp"}),
    "Pow": Kind("Sym", _SYM_BASE | {"sym.Pow", "sympy.Pow"}),
    "Function": Kind("Sym", _SYM_BASE | {"sym.Function", "sympy.Function"}),
}
SYM_CLASSES = set().union(*[k.classes for k in SYM_KINDS.values()]) | {"sym.Number", "sym.Integer", "sym.Float", "sym.Rational", "sym.NumberSymbol"}


def class_name(node):
    s = u(node)
    s = s.replace("numpy.", "np.").replace("sympy.", "sym.")
    return s


INLINER = [None]      # set by the rule modules: call node -> (inlined expression, Func) for single-return package helpers


def set_inliner(f):
    INLINER[0] = f


FUNCEVAL = [None]


def set_funceval(f):
    """f(evaluator, call node) -> model value of a call to a package helper with an if-structured body (finite-model interpretation of the
    helper on the model arguments), or AEval.NO"""
    FUNCEVAL[0] = f


class MNode:
    """model parse-tree node: its text and its children (terminal children have no children of their own)"""
    def __init__(self, text, kids=(), kind=None):
        self.text, self.kids, self.kind = text, tuple(kids), kind

    def __repr__(self):
        return "<%s>" % self.text


class AEval:
    def __init__(self, atom):
        """atom(node) -> value, or AEval.NO if the node is not a model atom"""
        self.atom = atom

    NO = object()

    def ev(self, e):
        v = self.atom(e)
        if v is not AEval.NO:
            return v
        if isinstance(e, ast.Constant):
            return e.value
        if isinstance(e, (ast.Tuple, ast.List)):
            return tuple(self.ev(x) for x in e.elts)
        if isinstance(e, ast.Set):
            return frozenset(self.ev(x) for x in e.elts)
        if isinstance(e, ast.UnaryOp):
            if isinstance(e.op, ast.Not):
                return not self.truth(self.ev(e.operand))
            if isinstance(e.op, ast.USub):
                return -self.ev(e.operand)
        if isinstance(e, ast.BoolOp):
            # three-valued (Kleene) evaluation: an operand the model cannot decide does not hide a later operand that decides the result
            is_and = isinstance(e.op, ast.And)
            unknown = None
            last = True if is_and else False
            for x in e.values:
                try:
                    v = self.ev(x)
                    t = self.truth(v)
                except Inconclusive as ex:
                    unknown = unknown or ex
                    continue
                if is_and and not t:
                    return v if unknown is None else False
                if not is_and and t:
                    return v if unknown is None else True
                last = v
            if unknown is not None:
                raise unknown
            return last
        if isinstance(e, ast.IfExp):
            return self.ev(e.body) if self.truth(self.ev(e.test)) else self.ev(e.orelse)
        if isinstance(e, ast.Compare):
            left = self.ev(e.left)
            for op, c in zip(e.ops, e.comparators):
                right = self.ev(c)
                if not self.cmp(op, left, right):
                    return False
                left = right
            return True
        if isinstance(e, ast.BinOp):
            a, b = self.ev(e.left), self.ev(e.right)
            try:
                if isinstance(e.op, ast.BitOr): return a | b
                if isinstance(e.op, ast.BitAnd): return a & b
                if isinstance(e.op, ast.BitXor): return a ^ b
                if isinstance(e.op, ast.Sub): return a - b
                if isinstance(e.op, ast.Add): return a + b
            except TypeError:
                pass
            raise Inconclusive("guard evaluator: operator in `%s`" % u(e))
        if isinstance(e, ast.Call):
            return self.call(e)
        if isinstance(e, (ast.SetComp, ast.ListComp, ast.GeneratorExp)):
            return self.comprehension(e)
        if isinstance(e, ast.Attribute):
            base = self.ev(e.value)
            if isinstance(base, Kind):
                if e.attr in base.extra:
                    return base.extra[e.attr]
                if e.attr == "imag":
                    return 0 if base.imag_zero else 1
                if e.attr == "real":
                    return 1
            raise Inconclusive("guard evaluator: attribute `%s`" % u(e))
        if isinstance(e, ast.Subscript):
            base = self.ev(e.value)
            if isinstance(e.slice, ast.Slice) and isinstance(base, (str, tuple)):
                lo = self.ev(e.slice.lower) if e.slice.lower is not None else None
                hi = self.ev(e.slice.upper) if e.slice.upper is not None else None
                st = self.ev(e.slice.step) if e.slice.step is not None else None
                return base[lo:hi:st]
            k = self.ev(e.slice)
            if isinstance(base, dict):
                return base[k]
            if isinstance(base, (tuple, list, str)) and isinstance(k, int):
                try:
                    return base[k]
                except IndexError:
                    raise ModelError("IndexError")
        raise Inconclusive("guard evaluator: unsupported expression `%s`" % u(e))

    def comprehension(self, e):
        """comprehension over finite model collections"""
        results = []

        def rec(gi, atom):
            if gi == len(e.generators):
                results.append(AEval(atom).ev(e.elt))
                return
            g = e.generators[gi]
            if not isinstance(g.target, ast.Name):
                raise Inconclusive("guard evaluator: comprehension target `%s`" % u(g.target))
            seq = AEval(atom).ev(g.iter)
            if isinstance(seq, dict):
                seq = tuple(seq.keys())
            if not isinstance(seq, (tuple, list, frozenset, set)):
                raise Inconclusive("guard evaluator: comprehension over a non-collection")
            for item in (sorted(seq, key=repr) if isinstance(seq, (set, frozenset)) else seq):
                def atom2(node, item=item, name=g.target.id, outer=atom):
                    if isinstance(node, ast.Name) and node.id == name:
                        return item
                    return outer(node)
                sub = AEval(atom2)
                if all(sub.truth(sub.ev(c)) for c in g.ifs):
                    rec(gi + 1, atom2)
        rec(0, self.atom)
        if isinstance(e, ast.SetComp):
            return frozenset(results)
        return tuple(results)

    def truth(self, v):
        if isinstance(v, Kind):
            raise Inconclusive("guard evaluator: truth value of a number kind")
        return bool(v)

    def cmp(self, op, a, b):
        if isinstance(op, (ast.Eq, ast.NotEq)):
            r = (a == b)
            return r if isinstance(op, ast.Eq) else not r
        if isinstance(op, (ast.Is, ast.IsNot)):
            r = (a is b) or (a is None and b is None) or (isinstance(a, bool) and a == b)
            return r if isinstance(op, ast.Is) else not r
        if isinstance(op, (ast.In, ast.NotIn)):
            r = a in b
            return r if isinstance(op, ast.In) else not r
        try:
            if isinstance(op, ast.Lt): return a < b
            if isinstance(op, ast.LtE): return a <= b
            if isinstance(op, ast.Gt): return a > b
            if isinstance(op, ast.GtE): return a >= b
        except TypeError:
            pass
        raise Inconclusive("guard evaluator: comparison")

    def call(self, e):
        fn = u(e.func)
        short = e.func.attr if isinstance(e.func, ast.Attribute) else fn
        args = e.args
        if fn == "isinstance" and len(args) == 2:
            x = self.ev(args[0])
            if not isinstance(x, Kind):
                raise Inconclusive("guard evaluator: isinstance on a non-kind value")
            cls = args[1].elts if isinstance(args[1], ast.Tuple) else [args[1]]
            names = [class_name(c) for c in cls]
            known = set().union(*[k.classes for k in KINDS.values()]) | {"np.bool_", "np.str_", "list", "tuple", "dict", "set", "Iterable", "sym.Symbol", "np.floating", "np.complexfloating",
                                                                            "np.integer", "np.number", "RegRefTransform", "np.unsignedinteger", "np.int32", "np.float32", "np.complex64", "bytes", "type(None)"}
            known |= SYM_CLASSES
            for n in names:
                if n not in known:
                    raise Inconclusive("guard evaluator: unknown class %s in isinstance" % n)
            return any(n in x.classes for n in names)
        if short == "RegRefTransform" and len(args) == 1 and not e.keywords:
            return ("RRT", self.ev(args[0]))            # construction of a register transform around that very value
        if fn in ("set", "frozenset") and len(args) <= 1:
            if not args:
                return frozenset()
            v = self.ev(args[0])
            return frozenset(v.keys() if isinstance(v, dict) else v)
        if fn in ("list", "tuple", "sorted") and len(args) == 1:
            v = self.ev(args[0])
            return tuple(sorted(v.keys() if isinstance(v, dict) else v))
        if isinstance(e.func, ast.Attribute) and short in ("get", "setdefault", "pop") and 1 <= len(args) <= 2 and not e.keywords:
            recv = self.ev(e.func.value)
            if isinstance(recv, dict):
                k = self.ev(args[0])
                if k in recv:
                    return recv[k]
                if len(args) == 2:
                    return self.ev(args[1])
                if short == "get":
                    return None
                raise ModelError("KeyError")
        if fn == "int" and len(args) == 1 and not e.keywords:
            v = self.ev(args[0])
            if isinstance(v, (str, int)):
                try:
                    return int(v)
                except ValueError:
                    raise ModelError("ValueError")
        if fn == "range" and 1 <= len(args) <= 3 and not e.keywords:
            vals = [self.ev(a) for a in args]
            if len(args) == 1 and isinstance(args[0], ast.Starred):
                vals = list(self.ev(args[0].value))
            if all(isinstance(v, int) and not isinstance(v, bool) for v in vals) and 1 <= len(vals) <= 3:
                try:
                    return tuple(range(*vals))
                except ValueError:
                    raise ModelError("ValueError")
        if isinstance(e.func, ast.Attribute) and short in ("getText", "getChildren", "INT", "getChildCount", "getChild") and not e.keywords:
            recv = self.ev(e.func.value)
            if isinstance(recv, MNode):
                if short == "getText" and not args:
                    return recv.text
                if short == "getChildren" and not args:
                    return recv.kids
                if short == "getChildCount" and not args:
                    return len(recv.kids)
                if short == "getChild" and len(args) == 1:
                    i = self.ev(args[0])
                    if isinstance(i, int) and 0 <= i < len(recv.kids):
                        return recv.kids[i]
                if short == "INT":
                    ints = tuple(k for k in recv.kids if k.kind == "INT")
                    if not args:
                        return ints
                    i = self.ev(args[0])
                    if isinstance(i, int):
                        return ints[i] if 0 <= i < len(ints) else None
        if fn == "len" and len(args) == 1:
            return len(self.ev(args[0]))
        if fn == "bool" and len(args) == 1:
            return self.truth(self.ev(args[0]))
        if fn in ("any", "all") and len(args) == 1:
            if isinstance(args[0], (ast.GeneratorExp, ast.ListComp)) and len(args[0].generators) == 1 and isinstance(args[0].generators[0].target, ast.Name):
                g = args[0].generators[0]
                seq = self.ev(g.iter)
                res = []
                outer = self.atom
                for item in seq:
                    def atom2(node, item=item, name=g.target.id, outer=outer):
                        if isinstance(node, ast.Name) and node.id == name:
                            return item
                        return outer(node)
                    sub = AEval(atom2)
                    if all(sub.truth(sub.ev(c)) for c in g.ifs):
                        res.append(sub.truth(sub.ev(args[0].elt)))
                return (any if fn == "any" else all)(res)
            v = self.ev(args[0])
            return (any if fn == "any" else all)(self.truth(x) for x in v)
        if fn == "type" and len(args) == 1:
            x = self.ev(args[0])
            if isinstance(x, Kind):
                return ("TYPE", x)
        if fn == "str" and len(args) == 1:
            v = self.ev(args[0])
            if isinstance(v, str):
                return v
        if isinstance(e.func, ast.Attribute) and short in ("isdigit", "isnumeric", "isdecimal", "startswith", "endswith", "isalpha", "isalnum", "lower", "upper", "strip", "replace"):
            recv = self.ev(e.func.value)
            if isinstance(recv, str):
                return getattr(recv, short)(*[self.ev(a) for a in args])
        if isinstance(e.func, ast.Attribute) and short in ("match", "fullmatch", "search"):
            import re as _re
            recv = self.ev(e.func.value) if not (isinstance(e.func.value, ast.Name) and e.func.value.id == "re") else "RE"
            if recv == "RE" and len(args) >= 2:
                pat, subj = self.ev(args[0]), self.ev(args[1])
                if isinstance(pat, str) and isinstance(subj, str):
                    return getattr(_re, short)(pat, subj)
            if isinstance(recv, tuple) and recv and recv[0] == "PATTERN" and len(args) == 1:
                subj = self.ev(args[0])
                if isinstance(subj, str):
                    return getattr(_re.compile(recv[1]), short)(subj)
        if fn in ("re.compile",) and len(args) == 1:
            pat = self.ev(args[0])
            if isinstance(pat, str):
                return ("PATTERN", pat)
        if isinstance(e.func, ast.Attribute):
            if short in ("issubset", "issuperset", "isdisjoint", "symmetric_difference", "union", "intersection", "difference") and len(args) == 1:
                a = self.ev(e.func.value)
                b = self.ev(args[0])
                a = frozenset(a.keys() if isinstance(a, dict) else a)
                b = frozenset(b.keys() if isinstance(b, dict) else b)
                return getattr(a, short)(b)
            if short == "keys" and not args:
                v = self.ev(e.func.value)
                if isinstance(v, dict):
                    return frozenset(v.keys())
            if short == "get" and args:
                v = self.ev(e.func.value)
                if isinstance(v, dict):
                    return v.get(self.ev(args[0]), self.ev(args[1]) if len(args) > 1 else None)
            # numpy predicates on kinds
            if fn in ("np.iscomplexobj", "numpy.iscomplexobj") and len(args) == 1:
                x = self.kind(args[0])
                return x.name in COMPLEX_KINDS
            if fn in ("np.isrealobj", "numpy.isrealobj") and len(args) == 1:
                return self.kind(args[0]).name not in COMPLEX_KINDS
            if fn in ("np.iscomplex", "numpy.iscomplex") and len(args) == 1:
                x = self.kind(args[0])
                return x.name in COMPLEX_KINDS and not x.imag_zero
            if fn in ("np.isreal", "numpy.isreal") and len(args) == 1:
                x = self.kind(args[0])
                return not (x.name in COMPLEX_KINDS and not x.imag_zero)
            if fn in ("np.imag", "numpy.imag") and len(args) == 1:
                return 0 if self.kind(args[0]).imag_zero else 1
            if fn in ("np.any", "np.all") and len(args) == 1:
                return self.truth(self.ev(args[0]))
            if fn in ("np.issubdtype",) and len(args) == 2:
                t = self.ev(args[0])
                if isinstance(t, tuple) and t and t[0] == "TYPE":
                    return class_name(args[1]) in t[1].classes
        if INLINER[0] is not None:
            r = INLINER[0](e)
            if r is not None:
                return self.ev(r[0])
        if FUNCEVAL[0] is not None:
            r = FUNCEVAL[0](self, e)
            if r is not AEval.NO:
                return r
        raise Inconclusive("guard evaluator: unsupported call `%s`" % u(e))

    def kind(self, node):
        x = self.ev(node)
        if not isinstance(x, Kind):
            raise Inconclusive("guard evaluator: numpy predicate on a non-kind value")
        return x


def truth_table(expr, models, atom_for):
    """models: list of model objects; atom_for(model) -> atom function.  Returns list of bool."""
    out = []
    for m in models:
        out.append(bool(AEval(atom_for(m)).truth(AEval(atom_for(m)).ev(expr))))
    return out


def run_block(stmts, atom, env=None):
    """finite-model interpretation of a straight-line / if-structured block: names assigned in the block live in env, everything else is
    asked of atom.  Returns ("return", value) | ("raise", class name) | ("fall", None).  Anything else in the block: Inconclusive."""
    env = {} if env is None else env

    def at(node):
        if isinstance(node, ast.Name) and node.id in env:
            return env[node.id]
        return atom(node)
    ev = AEval(at)
    for s in stmts:
        if isinstance(s, ast.Expr) and isinstance(s.value, ast.Constant) or isinstance(s, ast.Pass):
            continue
        if isinstance(s, ast.Assign) and len(s.targets) == 1 and isinstance(s.targets[0], ast.Name):
            env[s.targets[0].id] = ev.ev(s.value)
            continue
        if isinstance(s, ast.Assign) and len(s.targets) == 1 and isinstance(s.targets[0], (ast.Tuple, ast.List)) and all(isinstance(t, ast.Name) for t in s.targets[0].elts):
            v = ev.ev(s.value)
            if not isinstance(v, (tuple, list)):
                raise Inconclusive("block interpreter: unpacking of `%s`" % u(s.value)[:40])
            if len(v) != len(s.targets[0].elts):
                raise ModelError("ValueError")
            for t, x in zip(s.targets[0].elts, v):
                env[t.id] = x
            continue
        if isinstance(s, ast.If):
            r = run_block(s.body if ev.truth(ev.ev(s.test)) else s.orelse, atom, env)
            if r[0] != "fall":
                return r
            continue
        if isinstance(s, ast.Try) and not s.finalbody:
            try:
                r = run_block(s.body, atom, env)
                if r[0] == "fall" and s.orelse:
                    r = run_block(s.orelse, atom, env)
            except ModelError as exc:
                r = None
                for h in s.handlers:
                    names = [] if h.type is None else [u(x) for x in (h.type.elts if isinstance(h.type, ast.Tuple) else [h.type])]
                    if h.type is None or str(exc) in names or "Exception" in names or "BaseException" in names or (str(exc) in ("KeyError", "IndexError") and "LookupError" in names):
                        r = run_block(h.body, atom, env)
                        break
                if r is None:
                    raise
            if r[0] != "fall":
                return r
            continue
        if isinstance(s, ast.Return):
            return ("return", None if s.value is None else ev.ev(s.value))
        if isinstance(s, ast.Raise):
            return ("raise", raised_class([s]))
        raise Inconclusive("block interpreter: statement `%s`" % " ".join(u(s).split())[:60])
    return ("fall", None)


# ---------------------------------------------------------------------------------------------- control-flow helpers
def always_raises(stmts):
    """every path through the statement list ends in `raise` (structured control flow only)"""
    for s in stmts:
        if isinstance(s, ast.Raise):
            return True
        if isinstance(s, ast.If) and always_raises(s.body) and s.orelse and always_raises(s.orelse):
            return True
        if isinstance(s, ast.Try):
            if always_raises(s.finalbody):
                return True
            if always_raises(s.body) and all(always_raises(h.body) for h in s.handlers):
                return True
        if isinstance(s, (ast.Return, ast.Break, ast.Continue)):
            return False
    return False


def raised_class(stmts):
    """class names raised at the end of an always-raising block"""
    out = set()
    for s in ast.walk(ast.Module(body=list(stmts), type_ignores=[])):
        if isinstance(s, ast.Raise) and s.exc is not None:
            e = s.exc
            out.add(u(e.func) if isinstance(e, ast.Call) else u(e))
    return out


# ---------------------------------------------------------------------------------------------- may-reach conditions
def single_assignments(fn):
    """local names bound exactly once by a plain assignment `name = expr` (used to look through aliases in guards)"""
    count, val = {}, {}
    for n in ast.walk(fn):
        if isinstance(n, ast.Assign):
            for t in n.targets:
                for x in ast.walk(t):
                    if isinstance(x, ast.Name):
                        count[x.id] = count.get(x.id, 0) + 1
                        if isinstance(t, ast.Name):
                            val[x.id] = n.value
        elif isinstance(n, (ast.AugAssign, ast.AnnAssign)) and isinstance(n.target, ast.Name):
            count[n.target.id] = count.get(n.target.id, 0) + 2
        elif isinstance(n, (ast.For, ast.comprehension)):
            for x in ast.walk(n.target):
                if isinstance(x, ast.Name):
                    count[x.id] = count.get(x.id, 0) + 2
        elif isinstance(n, ast.arg):
            count[n.arg] = count.get(n.arg, 0) + 2
    return {k: v for k, v in val.items() if count.get(k) == 1}


def path_to(stmts, target):
    """list of (block, index) from the outermost block down to the block containing `target`, or None"""
    for i, s in enumerate(stmts):
        if s is target:
            return [(stmts, i, None)]
        for field in ("body", "orelse", "finalbody"):
            sub = getattr(s, field, None)
            if isinstance(sub, list) and sub and isinstance(sub[0], ast.stmt):
                p = path_to(sub, target)
                if p is not None:
                    return [(stmts, i, field)] + p
        if isinstance(s, ast.Try):
            for h in s.handlers:
                p = path_to(h.body, target)
                if p is not None:
                    return [(stmts, i, "handler")] + p
    return None


class Reach:
    """may-reach condition of a statement under a finite model: conjunction of the enclosing conditions and of the fall-through
    conditions of all preceding statements (an `if` whose branch always raises contributes the negation of its test).
    A test the evaluator cannot decide counts as 'may be either' (over-approximation of reachability)."""

    def __init__(self, fn, target, aliases=True):
        self.fn, self.target = fn, target
        self.path = path_to(fn.body, target)
        if self.path is None:
            raise Inconclusive("statement not found in function")
        self.alias = single_assignments(fn) if aliases else {}
        self.undecided = set()

    def test(self, expr, atom):
        """-> True / False / None (undecided)"""
        def atom2(node):
            v = atom(node)
            if v is AEval.NO and isinstance(node, ast.Name) and node.id in self.alias and self._depth < 6:
                self._depth += 1
                try:
                    return AEval(atom2).ev(self.alias[node.id])
                finally:
                    self._depth -= 1
            return v
        self._depth = 0
        try:
            return bool(AEval(atom2).truth(AEval(atom2).ev(expr)))
        except Inconclusive:
            self.undecided.add(" ".join(u(expr).split())[:80])
            return None
        except (KeyError, TypeError, IndexError, AttributeError):
            self.undecided.add(" ".join(u(expr).split())[:80])
            return None

    def leaves(self, stmts, atom):
        """some statement of the block raises / returns under the model (break and continue stay inside the enclosing loop)"""
        for s in stmts:
            if isinstance(s, (ast.Raise, ast.Return)):
                return True
            if isinstance(s, (ast.Break, ast.Continue)):
                return False
            if isinstance(s, ast.If):
                c = self.test(s.test, atom)
                if c is True:
                    if self.leaves(s.body, atom):
                        return True
                    continue
                if c is False:
                    if self.leaves(s.orelse, atom):
                        return True
                    continue
                return False          # undecided: may be either - not a definite exit
        return False

    def falls_through(self, stmts, atom):
        for s in stmts:
            if isinstance(s, (ast.Raise, ast.Return, ast.Break, ast.Continue)):
                return False
            if isinstance(s, ast.For) and isinstance(s.target, ast.Name):
                # a loop over a model collection: an element for which the body definitely raises / returns ends the function there
                try:
                    seq = AEval(atom).ev(s.iter)
                except Exception:
                    seq = None
                if isinstance(seq, (tuple, list)):
                    for item in seq:
                        def atom_i(node, item=item, name=s.target.id):
                            if isinstance(node, ast.Name) and node.id == name:
                                return item
                            return atom(node)
                        if self.leaves(s.body, atom_i):
                            return False
                continue
            if isinstance(s, ast.If):
                c = self.test(s.test, atom)
                a = self.falls_through(s.body, atom) if c is not False else False
                b = self.falls_through(s.orelse, atom) if c is not True else False
                if not (a or b):
                    return False
            elif isinstance(s, ast.Try):
                if not (self.falls_through(s.body, atom) or any(self.falls_through(h.body, atom) for h in s.handlers)):
                    return False
        return True

    def may_reach(self, atom):
        for (stmts, i, field) in self.path:
            if not self.falls_through(stmts[:i], atom):
                return False
            s = stmts[i]
            if field in ("body", "orelse") and isinstance(s, ast.If):
                c = self.test(s.test, atom)
                if (field == "body" and c is False) or (field == "orelse" and c is True):
                    return False
        return True


def reaching_def(fn, name, at_stmt):
    """value expression of the latest plain assignment `name = <expr>` that definitely reaches `at_stmt` (same or enclosing block, no
    intervening conditional rebinding), else None"""
    path = path_to(fn.body, at_stmt)
    if path is None:
        return None
    for (stmts, i, field) in reversed(path):
        for s in reversed(stmts[:i]):
            if isinstance(s, ast.Assign) and len(s.targets) == 1 and isinstance(s.targets[0], ast.Name) and s.targets[0].id == name:
                return s.value
            # any other statement that may rebind the name makes the definition ambiguous
            for n in ast.walk(s):
                if isinstance(n, ast.Name) and n.id == name and isinstance(n.ctx, ast.Store):
                    return None
        # entering a loop whose body may rebind the name
        s = stmts[i]
        if isinstance(s, (ast.For, ast.While)) and field == "body":
            for n in ast.walk(s):
                if isinstance(n, ast.Name) and n.id == name and isinstance(n.ctx, ast.Store):
                    if not (isinstance(s, ast.For) and any(x is n for x in ast.walk(s.target))):
                        pass
            if isinstance(s, ast.For) and any(isinstance(x, ast.Name) and x.id == name for x in ast.walk(s.target)):
                return None
    return None


def resolved_text(fn, e, at_stmt, depth=0):
    """unparse of e after replacing local names by their reaching definitions (aliases only: names, attribute chains, calls without side effects)"""
    class Sub(ast.NodeTransformer):
        def visit_Name(self, node):
            if isinstance(node.ctx, ast.Load) and depth < 4:
                d = reaching_def(fn, node.id, at_stmt)
                if d is None:
                    # bound exactly once in the whole function (possibly under the same condition as the use): that binding is the value
                    d = single_assignments(fn).get(node.id)
                    if d is not None and any(isinstance(x, ast.Name) and x.id == node.id for x in ast.walk(d)):
                        d = None
                if d is not None and not any(isinstance(x, (ast.Lambda, ast.ListComp, ast.GeneratorExp, ast.List, ast.Dict, ast.Set, ast.DictComp, ast.SetComp)) for x in ast.walk(d)):
                    dstmt = None
                    for s in ast.walk(fn):
                        if isinstance(s, ast.Assign) and s.value is d:
                            dstmt = s
                    import copy as _c
                    sub = resolved_text(fn, d, dstmt if dstmt is not None else at_stmt, depth + 1)
                    return ast.parse(sub, mode="eval").body
            return node
    import copy
    t = Sub().visit(copy.deepcopy(e))
    return " ".join(u(t).split())


def stmt_of(fn, node):
    """innermost statement of fn containing node"""
    best = None
    for s in ast.walk(fn):
        if isinstance(s, ast.stmt):
            for n in ast.walk(s):
                if n is node:
                    if best is None or (s.lineno, -s.end_lineno) >= (best.lineno, -best.end_lineno):
                        if not isinstance(s, (ast.If, ast.For, ast.While, ast.Try, ast.With, ast.FunctionDef)) or _in_header(s, node):
                            best = s
                    break
    return best


def _in_header(s, node):
    heads = []
    if isinstance(s, (ast.If, ast.While)):
        heads = [s.test]
    elif isinstance(s, ast.For):
        heads = [s.iter, s.target]
    elif isinstance(s, ast.With):
        heads = [i.context_expr for i in s.items]
    return any(n is node for h in heads for n in ast.walk(h))


def definitely_bound(stmts):
    """names definitely bound by plain assignments when the statement list completes normally"""
    b = set()
    for s in stmts:
        if isinstance(s, ast.Assign):
            for t in s.targets:
                if isinstance(t, ast.Name):
                    b.add(t.id)
                elif isinstance(t, (ast.Tuple, ast.List)):
                    b |= {x.id for x in t.elts if isinstance(x, ast.Name)}
        elif isinstance(s, ast.If):
            a1, a2 = definitely_bound(s.body), definitely_bound(s.orelse)
            t1, t2 = always_raises(s.body), (always_raises(s.orelse) if s.orelse else False)
            if t1 and not t2:
                b |= a2
            elif t2 and not t1:
                b |= a1
            elif not t1 and not t2:
                b |= (a1 & a2)
        elif isinstance(s, ast.Try):
            outs = [definitely_bound(s.body) | definitely_bound(s.orelse)]
            for h in s.handlers:
                if not always_raises(h.body):
                    outs.append(definitely_bound(h.body))
            b |= set.intersection(*outs)
            b |= definitely_bound(s.finalbody)
    return b


def handler_ok(try_stmt, handler):
    """an exception handler does not absorb an error: it re-raises on every path, or it is a fallback that (re)computes everything the
    protected block would have bound and raises when that fails too"""
    if always_raises(handler.body):
        return True
    if try_stmt.orelse:
        # value-then-continue form (`try: r = cast(v) except: <fallback> else: use(r)`): the fallback must end, on every path that does
        # not raise, with the same continuation (up to the name of the temporary)
        import re as _re

        def text(stmts):
            return [_re.sub(r"\b_r\d+\b", "_r", " ".join(u(x).split())) for x in stmts]
        want = text(try_stmt.orelse)

        def ends_with(stmts):
            if not stmts:
                return False
            if always_raises(stmts):
                return True
            last = stmts[-1]
            if isinstance(last, ast.Try):
                tail = last.orelse if last.orelse else last.body
                return ends_with(tail) and all(ends_with(h.body) for h in last.handlers)
            if isinstance(last, ast.If) and last.orelse:
                return ends_with(last.body) and ends_with(last.orelse)
            return text(stmts)[-len(want):] == want
        if ends_with(handler.body):
            return True
    if try_stmt.body and isinstance(try_stmt.body[-1], ast.Return) and isinstance(try_stmt.body[-1].value, ast.Call):
        # `try: return cast(v)`: a fallback handler ends, on every path that does not raise, by returning a recomputed value (a call)

        def returns_call(stmts):
            if not stmts:
                return False
            if always_raises(stmts):
                return True
            last = stmts[-1]
            if isinstance(last, ast.Return):
                return isinstance(last.value, ast.Call)
            if isinstance(last, ast.Try):
                return returns_call(last.orelse if last.orelse else last.body) and all(returns_call(h.body) for h in last.handlers)
            if isinstance(last, ast.If) and last.orelse:
                return returns_call(last.body) and returns_call(last.orelse)
            return False
        if returns_call(handler.body):
            return True
    need = definitely_bound(try_stmt.body)
    return bool(need) and need <= definitely_bound(handler.body)
