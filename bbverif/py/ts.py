"""TS - typestate of process-wide tables over the grammar-derived listener event order (DESIGN 4.5 TS).

state per table: dirty (may hold data of an earlier, possibly aborted, load) / clean (cleared since this walk started).
Function summaries: may_use_first[t] (some path touches t before clearing it), must_clear[t] (every path clears t).
A call `<x>.walk(listener, tree)` splices in the event language of a depth-first walk of any parse tree of `start`,
computed from the grammar; handler summaries and the walk summary are solved together to a fixpoint.
"""
import ast

from ..report import Inconclusive
from ..gram.g4 import Ref, Seq, Alt, Rep
from .index import u


def postorder(e):
    out = []

    def rec(n):
        for c in ast.iter_child_nodes(n):
            rec(c)
        out.append(n)
    rec(e)
    return out


class Summ:
    def __init__(self):
        self.use_first = {}     # table -> witness text
        self.must_clear = set()
        self.ends_used = set()        # tables that may be used (filled) after their last clear when the function returns
        self.leaves_foreign = set()   # tables that may still hold the entries of a nested walk (an included file) when the function returns
        self.foreign_use = {}         # table -> witness: used while it may hold entries of a nested walk

    def key(self):
        return (tuple(sorted(self.use_first)), tuple(sorted(self.must_clear)), tuple(sorted(self.ends_used)), tuple(sorted(self.leaves_foreign)), tuple(sorted(self.foreign_use)))


class TS:
    def __init__(self, ix, G, tables, listener_cls="listener.BlackbirdListener", generated_handlers=None):
        """tables: set of canonical ids 'mod.name'"""
        self.ix, self.G, self.tables = ix, G, set(tables)
        self.listener_cls = listener_cls
        self.handlers = {n: f for n, f in ix.methods(listener_cls).items() if n.startswith(("enter", "exit"))}
        if generated_handlers is not None:
            self.handlers = {n: f for n, f in self.handlers.items() if n in generated_handlers}
        self.summ = {q: Summ() for q in ix.funcs}
        self.walk = Summ()
        self.walk_checks = []

    # ---- name resolution
    def table_of(self, mod, node):
        """canonical table id if the expression node denotes one of the tables"""
        if isinstance(node, ast.Name):
            q = "%s.%s" % (mod, node.id)
            if q in self.tables:
                return q
            imp = self.ix.imports.get(mod, {}).get(node.id)
            if imp and imp[2] >= 1:
                q = "%s.%s" % (imp[0], imp[1])
                if q in self.tables:
                    return q
        if isinstance(node, ast.Attribute) and isinstance(node.value, ast.Name):
            imp = self.ix.imports.get(mod, {}).get(node.value.id)
            if imp and imp[2] >= 1 and imp[1] in self.ix.mods:
                q = "%s.%s" % (imp[1], node.attr)
                if q in self.tables:
                    return q
        return None

    def solve(self):
        for _ in range(12):
            before = (tuple(s.key() for s in self.summ.values()), self.walk.key())
            for q, f in self.ix.funcs.items():
                self.summ[q] = self.scan(f)
            self.walk, self.walk_checks = self.walk_from(set(self.tables))
            after = (tuple(s.key() for s in self.summ.values()), self.walk.key())
            if before == after:
                return
        raise Inconclusive("TS summaries did not reach a fixpoint")

    # ---- per-function scan
    def scan(self, f):
        out = Summ()
        mod = f.mod
        shadow = set(f.params)

        def local_shadow(name):
            return name in shadow

        used = set()
        foreign = set()

        def visit_expr(e, cleared):
            # evaluation order = post-order of the expression tree (operands before the operation, left to right); positions in the
            # source are not used because inlined / substituted sub-expressions keep the positions of where they came from
            nodes = [n for n in postorder(e) if isinstance(n, (ast.Name, ast.Call, ast.Attribute))]
            skip = set()
            for n in nodes:
                if isinstance(n, ast.Call) and isinstance(n.func, ast.Attribute) and n.func.attr == "clear" and not n.args:
                    t = self.table_of(mod, n.func.value)
                    if t:
                        skip.add(id(n.func.value))
                        skip.add(id(n.func))
            for n in nodes:
                if id(n) in skip:
                    if isinstance(n, ast.Attribute):
                        cleared.add(self.table_of(mod, n.value))
                        used.discard(self.table_of(mod, n.value))
                        foreign.discard(self.table_of(mod, n.value))
                    continue
                if isinstance(n, (ast.Name, ast.Attribute)):
                    if isinstance(n, ast.Name) and local_shadow(n.id):
                        continue
                    t = self.table_of(mod, n)
                    if t:
                        used.add(t)
                        if t in foreign:
                            out.foreign_use.setdefault(t, "%s (line %d in %s)" % (" ".join(u(stmt_of.get(id(n), n)).split())[:90], n.lineno, f.qual))
                    if t and t not in cleared:
                        out.use_first.setdefault(t, "%s (line %d in %s)" % (" ".join(u(stmt_of.get(id(n), n)).split())[:90], n.lineno, f.qual))
                elif isinstance(n, ast.Call):
                    callee = self.callee(f, n)
                    if callee == "WALK":
                        for t, why in self.walk.use_first.items():
                            if t not in cleared:
                                out.use_first.setdefault(t, "nested tree walk at line %d in %s -> %s" % (n.lineno, f.qual, why))
                        cleared |= self.walk.must_clear
                        for t in self.tables:
                            if t in self.walk.ends_used:
                                foreign.add(t)
                                used.add(t)
                            elif t in self.walk.must_clear:
                                used.discard(t)
                                foreign.discard(t)
                    elif callee:
                        s = self.summ[callee]
                        for t, why in s.use_first.items():
                            if t not in cleared:
                                out.use_first.setdefault(t, "call at line %d in %s -> %s" % (n.lineno, f.qual, why))
                        cleared |= s.must_clear
                        for t in self.tables:
                            if t in foreign and t in s.use_first:
                                out.foreign_use.setdefault(t, "call at line %d in %s -> %s" % (n.lineno, f.qual, s.use_first[t]))
                            if t in s.ends_used:
                                used.add(t)
                            elif t in s.must_clear:
                                used.discard(t)
                                foreign.discard(t)
                            foreign.update(s.leaves_foreign)

        stmt_of = {}

        def block(stmts, cleared):
            """returns False if the block cannot complete normally"""
            for s in stmts:
                for n in ast.walk(s):
                    stmt_of.setdefault(id(n), s)
                if isinstance(s, ast.If):
                    visit_expr(s.test, cleared)
                    a, b = set(cleared), set(cleared)
                    ra = block(s.body, a)
                    rb = block(s.orelse, b)
                    if ra and rb:
                        new = a & b
                    elif ra:
                        new = a
                    elif rb:
                        new = b
                    else:
                        return False
                    cleared.clear()
                    cleared |= new
                elif isinstance(s, (ast.For, ast.While)):
                    visit_expr(s.iter if isinstance(s, ast.For) else s.test, cleared)
                    block(s.body, set(cleared))
                    block(s.orelse, set(cleared))
                elif isinstance(s, ast.Try):
                    c = set(cleared)
                    r = block(s.body, c)
                    ok = []
                    if r:
                        c2 = set(c)
                        if block(s.orelse, c2):
                            ok.append(c2)
                    for h in s.handlers:
                        hc = set(cleared)
                        if block(h.body, hc):
                            ok.append(hc)
                    if not ok:
                        block(s.finalbody, set(cleared))
                        return False
                    new = set.intersection(*ok)
                    block(s.finalbody, new)
                    cleared.clear()
                    cleared |= new
                elif isinstance(s, ast.With):
                    for it in s.items:
                        visit_expr(it.context_expr, cleared)
                    if not block(s.body, cleared):
                        return False
                elif isinstance(s, ast.Match):
                    visit_expr(s.subject, cleared)
                    ok = [set(cleared)]
                    for c in s.cases:
                        cc = set(cleared)
                        if block(c.body, cc):
                            ok.append(cc)
                    new = set.intersection(*ok)
                    cleared.clear()
                    cleared |= new
                elif isinstance(s, (ast.FunctionDef, ast.AsyncFunctionDef, ast.ClassDef)):
                    continue
                elif isinstance(s, ast.Delete):
                    for t in s.targets:
                        if isinstance(t, ast.Subscript) and isinstance(t.slice, ast.Slice) and t.slice.lower is None and t.slice.upper is None and self.table_of(mod, t.value):
                            cleared.add(self.table_of(mod, t.value))
                        else:
                            visit_expr(t, cleared)
                elif isinstance(s, ast.Assign) and len(s.targets) == 1 and isinstance(s.targets[0], ast.Subscript) and isinstance(s.targets[0].slice, ast.Slice) \
                        and s.targets[0].slice.lower is None and s.targets[0].slice.upper is None and self.table_of(mod, s.targets[0].value) \
                        and isinstance(s.value, (ast.List, ast.Tuple)) and not s.value.elts:
                    cleared.add(self.table_of(mod, s.targets[0].value))
                else:
                    for e in ast.iter_child_nodes(s):
                        if isinstance(e, ast.expr):
                            visit_expr(e, cleared)
                    if isinstance(s, (ast.Return, ast.Raise, ast.Break, ast.Continue)):
                        if isinstance(s, ast.Return):
                            exits.append(set(cleared))
                        return False
                    if isinstance(s, (ast.Assign, ast.AnnAssign, ast.AugAssign)):
                        for t in (s.targets if isinstance(s, ast.Assign) else [s.target]):
                            if isinstance(t, ast.Name):
                                shadow.add(t.id) if self.table_of(mod, t) is None or not self._declared_global(f, t.id) else None
            return True

        exits = []
        cl = set()
        if block(f.node.body, cl):
            exits.append(cl)
        out.must_clear = set.intersection(*exits) if exits else set(self.tables)
        out.ends_used = set(used)          # may-information: path-insensitive union (a clear on one branch does not remove it)
        out.leaves_foreign = set(foreign)
        return out

    def _declared_global(self, f, name):
        return any(isinstance(n, ast.Global) and name in n.names for n in ast.walk(f.node))

    def callee(self, f, call):
        fn = call.func
        if isinstance(fn, ast.Attribute):
            if fn.attr == "walk" and len(call.args) == 2:
                return "WALK"
            if isinstance(fn.value, ast.Name) and fn.value.id == "self" and f.cls:
                q = "%s.%s" % (f.cls, fn.attr)
                return q if q in self.ix.funcs else None
            if isinstance(fn.value, ast.Call) and isinstance(fn.value.func, ast.Name) and fn.value.func.id == "super":
                return None
            cands = [q for q, g in self.ix.funcs.items() if g.cls and g.name == fn.attr and not g.name.startswith("__")]
            if len(cands) == 1 and not (isinstance(fn.value, ast.Name) and fn.value.id in ("np", "sym", "nx", "os", "antlr4", "warnings", "re", "copy")):
                return cands[0]
            return None
        if isinstance(fn, ast.Name):
            q = self.ix.resolve_name(f.mod, fn.id)
            if q in self.ix.funcs:
                return q
            if q in self.ix.classes:
                init = q + ".__init__"
                return init if init in self.ix.funcs else None
            # a parameter whose default is a package class (parse(..., listener=BlackbirdListener))
            a = f.node.args
            names = [x.arg for x in a.args]
            defaults = dict(zip(names[len(names) - len(a.defaults):], a.defaults))
            d = defaults.get(fn.id)
            if isinstance(d, ast.Name):
                q = self.ix.resolve_name(f.mod, d.id)
                if q in self.ix.classes and q + ".__init__" in self.ix.funcs:
                    return q + ".__init__"
            # a local bound to a program object: the unique __call__
            calls = [q for q, g in self.ix.funcs.items() if g.name == "__call__"]
            if len(calls) == 1 and fn.id not in ("print", "len", "str", "int", "float", "set", "list", "dict", "tuple", "range", "isinstance", "enumerate", "zip",
                                                 "sorted", "bool", "complex", "type", "any", "all", "min", "max", "sum", "abs", "super", "getattr", "hasattr"):
                return calls[0]
        return None

    # ---- the event language of a walk, from the grammar
    def walk_from(self, dirty0):
        G = self.G
        res = Summ()
        checks = []

        wused = set()
        wforeign = set()
        self.foreign_checks = getattr(self, "foreign_checks", [])
        fchecks = []

        def apply(h, dirty, path):
            f = self.handlers.get(h)
            if f is None:
                return dirty
            s = self.summ[f.qual]
            for t in sorted(self.tables):
                if t in wforeign and t in s.use_first:
                    fchecks.append((h, t, tuple(path), False, s.use_first[t]))
                elif t in s.foreign_use:
                    fchecks.append((h, t, tuple(path), False, s.foreign_use[t]))
                if t in s.ends_used:
                    wused.add(t)
                elif t in s.must_clear:
                    wused.discard(t)
                if t in s.must_clear and t not in s.leaves_foreign:
                    wforeign.discard(t)
                if t in s.leaves_foreign:
                    wforeign.add(t)
            out = set(dirty)
            for t in sorted(self.tables):
                if t in dirty:
                    if t in s.use_first:
                        res.use_first.setdefault(t, "%s [event path %s] %s" % (h, " > ".join(path + [h]), s.use_first[t]))
                        checks.append((h, t, tuple(path), False, s.use_first[t]))
                    else:
                        checks.append((h, t, tuple(path), True, "first access clears" if t in s.must_clear else "not accessed"))
                elif t in s.use_first or t in s.must_clear:
                    checks.append((h, t, tuple(path), True, "table already cleared on every path to this event"))
                if t in s.must_clear:
                    out.discard(t)
            return frozenset(out)

        def events_of(rn):
            labs = G.labels(rn)
            return labs if labs else None

        def walk_rule(rn, dirty, path, active):
            r = G.R[rn]
            labs = [l for l in r.body.labels]
            if any(labs):
                outs = []
                for alt, lab in zip(r.body.alts, labs):
                    cap = lab[0].upper() + lab[1:]
                    d = apply("enter" + cap, dirty, path)
                    if rn not in active:
                        d = walk(alt, d, path + [lab], active | {rn})
                    outs.append(apply("exit" + cap, d, path))
                return frozenset().union(*outs)
            cap = rn[0].upper() + rn[1:]
            d = apply("enter" + cap, dirty, path)
            if rn not in active:
                d = walk(r.body, d, path + [rn], active | {rn})
            return apply("exit" + cap, d, path)

        def walk(node, dirty, path, active):
            if isinstance(node, Ref):
                if node.name in G.pidx:
                    return walk_rule(node.name, dirty, path, active)
                return dirty
            if isinstance(node, Seq):
                for it in node.items:
                    dirty = walk(it, dirty, path, active)
                return dirty
            if isinstance(node, Alt):
                outs = [walk(a, dirty, path, active) for a in node.alts]
                return frozenset().union(*outs)
            if isinstance(node, Rep):
                d1 = walk(node.item, dirty, path, active)
                d2 = walk(node.item, d1 | dirty, path, active)
                return (d2 | d1) if node.kind == "+" else (d2 | d1 | dirty)
            return dirty

        final = walk_rule(G.prules[0].name, frozenset(dirty0), [], frozenset())
        res.must_clear = set(self.tables) - set(final)
        res.ends_used = set(wused)
        self.foreign_checks = fchecks
        return res, checks
