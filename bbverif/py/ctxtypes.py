"""Context typing (DESIGN 4.4): types of expressions that denote parse-tree objects, read from the generated parser's context classes."""
import ast
import re

from ..report import Inconclusive
from .index import u

GENERIC_CTX = {"getText", "getChildren", "getChild", "getChildCount", "start", "stop", "parentCtx", "children", "getToken", "getTokens", "getTypedRuleContext",
               "getTypedRuleContexts", "getRuleIndex", "parser", "invokingState", "exception", "getSourceInterval", "toStringTree", "depth", "isEmpty", "getPayload",
               "getParent", "accept", "getRuleContext", "getAltNumber", "copyFrom", "enterRule", "exitRule", "addChild", "toString"}
GENERIC_TERM = {"getText", "getSymbol", "symbol", "getPayload", "getParent", "parentCtx", "getSourceInterval", "getChildCount", "accept", "getChild", "toStringTree"}
GENERIC_TOKEN = {"line", "column", "text", "type", "tokenIndex", "start", "stop", "getInputStream", "channel", "getTokenSource", "source", "clone"}


class Acc:
    def __init__(self, kind, target, multi):
        self.kind, self.target, self.multi = kind, target, multi     # kind rule|token ; multi single|either

    def __repr__(self):
        return "%s:%s:%s" % (self.kind, self.target, self.multi)


class ContextClasses:
    def __init__(self, parser_src, clsname="blackbirdParser"):
        t = ast.parse(parser_src)
        cls = [n for n in t.body if isinstance(n, ast.ClassDef) and n.name == clsname]
        if len(cls) != 1:
            raise Inconclusive("generated parser class not found")
        self.classes = {}
        for c in cls[0].body:
            if isinstance(c, ast.ClassDef) and c.name.endswith("Context"):
                base = u(c.bases[0]) if c.bases else ""
                acc = {}
                fields = {}
                for f in c.body:
                    if not isinstance(f, ast.FunctionDef):
                        continue
                    if f.name == "__init__":
                        for n in ast.walk(f):
                            if isinstance(n, ast.Assign) and isinstance(n.targets[0], ast.Attribute) and u(n.targets[0].value) == "self":
                                if isinstance(n.value, ast.Call) and u(n.value.func) == "list":
                                    fields[n.targets[0].attr] = "list"
                                elif isinstance(n.value, ast.Constant) and n.value.value is None:
                                    fields[n.targets[0].attr] = "single"
                        continue
                    src = u(f)
                    m1 = re.search(r"getTypedRuleContexts?\(%s\.(\w+)" % clsname, src)
                    m2 = re.search(r"getTokens?\(%s\.(\w+)" % clsname, src)
                    if m1:
                        acc[f.name] = Acc("rule", m1.group(1), "either" if "getTypedRuleContexts(" in src else "single")
                    elif m2:
                        acc[f.name] = Acc("token", m2.group(1), "either" if "getTokens(" in src else "single")
                self.classes[c.name] = {"base": base.split(".")[-1], "acc": acc, "fields": fields}

    def has(self, cname):
        return cname in self.classes

    def lookup(self, cname, attr):
        """Acc | 'generic' | 'field:list' | 'field:single' | None"""
        seen = set()
        while cname in self.classes and cname not in seen:
            seen.add(cname)
            c = self.classes[cname]
            if attr in c["acc"]:
                return c["acc"][attr]
            if attr in c["fields"]:
                return "field:" + c["fields"][attr]
            cname = c["base"]
        if attr in GENERIC_CTX:
            return "generic"
        return None

    def subclasses(self, cname):
        return sorted(k for k, v in self.classes.items() if v["base"] == cname)

    def field_elem(self, cname, field):
        """element context class of a list-label field, from the accessor with the like-named rule (statement_list -> StatementContext)"""
        base = field[:-5] if field.endswith("_list") else field.lstrip("_")
        for n in (base, base.rstrip("s")):
            a = self.lookup(cname, n)
            if isinstance(a, Acc):
                return a
        # label differs from rule name (for_list -> forloop, var_list -> expressionvar ...): use the single-valued twin `_x`
        return None


def ctx_of_annotation(ann):
    if ann is None:
        return None
    s = u(ann)
    m = re.fullmatch(r"(?:\w+\.)?(\w+Context)", s)
    return m.group(1) if m else None


class Typer:
    """flow-sensitive typing of names that hold parse-tree objects.  Types are frozensets of tags:
       'ctx:<Class>' | 'anyctx' | 'term' | 'tok' | 'none' | 'list:<tag>' | 'other'"""

    def __init__(self, cc, fn, on_access=None, param_types=None):
        self.cc, self.fn = cc, fn
        self.accesses = []       # (node, recv_types, attr, is_call)
        self.on_access = on_access
        self.param_types = param_types or {}

    def run(self):
        env = {}
        a = self.fn.args
        for x in a.posonlyargs + a.args + a.kwonlyargs:
            c = ctx_of_annotation(x.annotation)
            if x.arg in self.param_types:
                env[x.arg] = frozenset(self.param_types[x.arg])
            elif c and self.cc.has(c):
                env[x.arg] = frozenset(["ctx:" + c])
        self.block(self.fn.body, env)
        return self

    def block(self, stmts, env):
        for s in stmts:
            env = self.stmt(s, env)
        return env

    def join(self, a, b):
        out = {}
        for k in set(a) | set(b):
            if k in a and k in b:
                out[k] = a[k] | b[k]
            else:
                out[k] = (a.get(k) or b.get(k)) | frozenset(["other"])
        return out

    def stmt(self, s, env):
        if isinstance(s, ast.Assign):
            t = self.ty(s.value, env)
            for tg in s.targets:
                env = self.bind(tg, t, env)
            return env
        if isinstance(s, ast.AugAssign):
            self.ty(s.value, env)
            self.ty(s.target, env)
            return env
        if isinstance(s, ast.Expr):
            self.ty(s.value, env)
            return env
        if isinstance(s, ast.If):
            self.ty(s.test, env)
            et, ef = self.refine(s.test, env)
            a = self.block(s.body, et)
            b = self.block(s.orelse, ef)
            ta, tb = terminates(s.body), terminates(s.orelse)
            if ta and not tb:
                return b
            if tb and not ta:
                return a
            return self.join(a, b)
        if isinstance(s, ast.For):
            it = self.ty(s.iter, env)
            el = frozenset(x[5:] for x in it if x.startswith("list:")) or frozenset(["other"])
            env = self.bind(s.target, el, dict(env))
            e2 = self.block(s.body, env)
            e2 = self.block(s.body, self.join(env, e2))
            return self.block(s.orelse, self.join(env, e2))
        if isinstance(s, ast.While):
            self.ty(s.test, env)
            et, ef = self.refine(s.test, env)
            e2 = self.block(s.body, et)
            e3 = self.block(s.body, self.join(et, e2))
            return self.join(env, e3)
        if isinstance(s, ast.Try):
            e = self.block(s.body, dict(env))
            for h in s.handlers:
                e = self.join(e, self.block(h.body, dict(env)))
            e = self.block(s.orelse, e)
            return self.block(s.finalbody, e)
        if isinstance(s, (ast.Return, ast.Raise)):
            v = s.value if isinstance(s, ast.Return) else s.exc
            if v is not None:
                self.ty(v, env)
            return env
        if isinstance(s, ast.With):
            for it in s.items:
                self.ty(it.context_expr, env)
            return self.block(s.body, env)
        if isinstance(s, ast.Delete):
            for t in s.targets:
                self.ty(t, env)
            return env
        if isinstance(s, ast.Match):
            self.ty(s.subject, env)
            out = dict(env)
            for c in s.cases:
                e = dict(env)
                p = c.pattern
                if isinstance(p, ast.MatchClass) and isinstance(s.subject, ast.Name):
                    cn = ctx_of_annotation(p.cls)
                    if cn and self.cc.has(cn):
                        e[s.subject.id] = frozenset(["ctx:" + cn])
                out = self.join(out, self.block(c.body, e))
            return out
        for e in ast.iter_child_nodes(s):
            if isinstance(e, ast.expr):
                self.ty(e, env)
        return env

    def bind(self, tg, t, env):
        if isinstance(tg, ast.Name):
            env = dict(env)
            env[tg.id] = t
        elif isinstance(tg, (ast.Tuple, ast.List)):
            el = frozenset(x[5:] for x in t if x.startswith("list:")) or frozenset(["other"])
            for e in tg.elts:
                env = self.bind(e, el, env)
        else:
            self.ty(tg, env)
        return env

    def refine(self, test, env):
        """(env if test true, env if test false)"""
        et, ef = dict(env), dict(env)
        if isinstance(test, ast.Call) and u(test.func) == "isinstance" and len(test.args) == 2 and isinstance(test.args[0], ast.Name):
            names = test.args[1].elts if isinstance(test.args[1], ast.Tuple) else [test.args[1]]
            cls = [ctx_of_annotation(n) for n in names]
            if all(c and self.cc.has(c) for c in cls):
                et[test.args[0].id] = frozenset("ctx:" + c for c in cls)
                cur = env.get(test.args[0].id)
                if cur:
                    ef[test.args[0].id] = frozenset(x for x in cur if x not in et[test.args[0].id]) or cur
        elif isinstance(test, ast.UnaryOp) and isinstance(test.op, ast.Not):
            a, b = self.refine(test.operand, env)
            return b, a
        elif isinstance(test, ast.BoolOp) and isinstance(test.op, ast.And):
            for v in test.values:
                et, _ = self.refine(v, et)
        elif isinstance(test, ast.Name) and test.id in env:
            et[test.id] = frozenset(x for x in env[test.id] if x != "none") or env[test.id]
        elif isinstance(test, ast.Compare) and len(test.ops) == 1 and isinstance(test.left, ast.Name) and test.left.id in env and isinstance(test.comparators[0], ast.Constant) \
                and test.comparators[0].value is None:
            nn = frozenset(x for x in env[test.left.id] if x != "none") or env[test.left.id]
            if isinstance(test.ops[0], ast.IsNot):
                et[test.left.id] = nn
            elif isinstance(test.ops[0], ast.Is):
                ef[test.left.id] = nn
        return et, ef

    def access(self, node, recv, attr, is_call, arg=None):
        self.accesses.append((node, recv, attr, is_call))

    def ty(self, e, env):
        OTHER = frozenset(["other"])
        if isinstance(e, ast.Name):
            return env.get(e.id, OTHER)
        if isinstance(e, ast.Constant):
            return frozenset(["none"]) if e.value is None else OTHER
        if isinstance(e, ast.Attribute):
            recv = self.ty(e.value, env)
            self.access(e, recv, e.attr, False)
            out = set()
            for t in recv:
                if t.startswith("ctx:") or t == "anyctx":
                    if e.attr in ("start", "stop"):
                        out.add("tok")
                    elif e.attr == "parentCtx":
                        out |= {"anyctx", "none"}
                    elif e.attr == "children":
                        out.add("list:anychild")
                    elif t.startswith("ctx:"):
                        lk = self.cc.lookup(t[4:], e.attr)
                        if isinstance(lk, str) and lk.startswith("field:"):
                            a = self.cc.field_elem(t[4:], e.attr)
                            tag = ("ctx:" + a.target) if isinstance(a, Acc) and a.kind == "rule" else ("term" if isinstance(a, Acc) else "anyctx")
                            out.add("list:" + tag if lk == "field:list" else tag)
                            if lk == "field:single":
                                out.add("none")
                        else:
                            out.add("other")
                    else:
                        out.add("other")
                elif t == "term" and e.attr in ("symbol",):
                    out.add("tok")
                elif e.attr in ("ctx", "_ctx"):
                    out |= {"anyctx"}
                else:
                    out.add("other")
            return frozenset(out) or OTHER
        if isinstance(e, ast.Call):
            for a in e.args:
                self.ty(a.value if isinstance(a, ast.Starred) else a, env)
            for k in e.keywords:
                self.ty(k.value, env)
            f = e.func
            if isinstance(f, ast.Attribute):
                recv = self.ty(f.value, env)
                self.access(e, recv, f.attr, True)
                out = set()
                for t in recv:
                    if t.startswith("ctx:"):
                        lk = self.cc.lookup(t[4:], f.attr)
                        if isinstance(lk, Acc):
                            tag = ("ctx:" + lk.target) if lk.kind == "rule" else "term"
                            if lk.multi == "either" and not e.args:
                                out.add("list:" + tag)
                            else:
                                out |= {tag, "none"}
                        elif f.attr == "getChildren":
                            out.add("list:anychild")
                        elif f.attr == "getSymbol":
                            out.add("tok")
                        else:
                            out.add("other")
                    elif t == "anyctx" and f.attr == "getChildren":
                        out.add("list:anychild")
                    elif t == "term" and f.attr == "getSymbol":
                        out.add("tok")
                    else:
                        out.add("other")
                return frozenset(out) or OTHER
            self.ty(f, env)
            return OTHER
        if isinstance(e, ast.BoolOp):
            ts = [self.ty(v, env) for v in e.values]
            if isinstance(e.op, ast.Or):
                out = set()
                for t in ts[:-1]:
                    out |= {x for x in t if x != "none"}
                return frozenset(out | set(ts[-1]))
            return ts[-1]
        if isinstance(e, ast.IfExp):
            self.ty(e.test, env)
            et, ef = self.refine(e.test, env)
            return self.ty(e.body, et) | self.ty(e.orelse, ef)
        if isinstance(e, ast.Subscript):
            b = self.ty(e.value, env)
            self.ty(e.slice, env)
            if isinstance(e.slice, ast.Slice):
                return b
            return frozenset(x[5:] for x in b if x.startswith("list:")) or OTHER
        if isinstance(e, (ast.ListComp, ast.GeneratorExp, ast.SetComp, ast.DictComp)):
            env2 = dict(env)
            for g in e.generators:
                it = self.ty(g.iter, env2)
                el = frozenset(x[5:] for x in it if x.startswith("list:")) or OTHER
                env2 = self.bind(g.target, el, env2)
                for c in g.ifs:
                    self.ty(c, env2)
                    env2, _ = self.refine(c, env2)
            if isinstance(e, ast.DictComp):
                self.ty(e.key, env2)
                self.ty(e.value, env2)
                return OTHER
            el = self.ty(e.elt, env2)
            return frozenset("list:" + x for x in el if not x.startswith("list:")) or OTHER
        for c in ast.iter_child_nodes(e):
            if isinstance(c, ast.expr):
                self.ty(c, env)
        return OTHER


def terminates(stmts):
    return bool(stmts) and isinstance(stmts[-1], (ast.Return, ast.Raise, ast.Continue, ast.Break))
