"""bbverif - static-analysis checkers deciding the Blackbird properties C01..C19.

Nothing in /repo is imported or executed by a deciding step: sources are read
through ``ast``, the grammar through an own ANTLR meta-syntax parser and the
shipped automata through an own ATN deserialiser.
"""
import os

REPO = os.environ.get("BBVERIF_REPO", "/repo")
VERIF = os.path.dirname(os.path.dirname(os.path.abspath(__file__)))
