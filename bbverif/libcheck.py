"""Thorough tier: validate the frozen library model against the installed NumPy / SymPy / builtins on constants.
This executes library code on constants only - never anything of /repo."""
import warnings

from .report import Inconclusive


def validate(rep, G=None):
    R = "LIB"
    rep.rule(R, "every row of the library model (class relations, raising/silent casts, integer-preserving operators, str.format shape classes) agrees with the installed libraries", floor=40)
    try:
        import numpy as np
        import sympy as sym
    except Exception as e:
        raise Inconclusive("library model validation needs numpy and sympy: %s" % e)
    from .py.guards import KINDS
    samples = {
        "PyInt": [0, 7, -3, 10 ** 12], "PyBool": [True, False], "PyFloat": [0.5, -2.0, 1e-300, 1e300, 5e-324, -0.0, 1e16, 123456789.125],
        "PyComplex": [1 + 2j, -1.5 - 0.25j, 2j, complex(0.0, -3.0), complex(1e-5, 1e20)], "PyComplex0": [complex(1.0, 0.0)],
        "NpInt": [np.int64(0), np.int64(-12), np.int64(2 ** 40)], "NpFloat": [np.float64(0.5), np.float64(-1e-300), np.float64(2.0)],
        "NpComplex": [np.complex128(1 + 2j), np.complex128(-0.5 - 3j)], "NpComplex0": [np.complex128(1 + 0j)], "PyStr": ["abc", "p0"], "Sym": [sym.Symbol("a") * 2 + 1],
        "NdArray": [np.array([[1.0, 2.0]])],
    }
    table = {"int": int, "bool": bool, "float": float, "complex": complex, "str": str, "np.int64": np.int64, "np.integer": np.integer, "np.float64": np.float64, "np.floating": np.floating,
             "np.complex128": np.complex128, "np.complexfloating": np.complexfloating, "np.number": np.number, "np.ndarray": np.ndarray, "sym.Expr": sym.Expr}
    for kname, vals in samples.items():
        k = KINDS[kname]
        for cname, cls in table.items():
            for v in vals:
                got = isinstance(v, cls)
                want = cname in k.classes
                rep.check(got == want, R, "isinstance(%s, %s)" % (kname, cname), "isinstance(%r, %s) is %s" % (v, cname, want), "library says %s" % got, key="isinstance|%s|%s|%r" % (kname, cname, v))
        if kname in ("NpComplex", "NpComplex0", "PyComplex", "PyComplex0"):
            for v in vals:
                rep.check(bool(np.iscomplex(v)) == (not k.imag_zero), R, "np.iscomplex(%s)" % kname, "np.iscomplex(%r) is %s" % (v, not k.imag_zero), key="iscomplex|%r" % (v,))
                rep.check(bool(np.iscomplexobj(v)), R, "np.iscomplexobj(%s)" % kname, "np.iscomplexobj(%r) is True" % (v,), key="iscomplexobj|%r" % (v,))
    # casts
    with warnings.catch_warnings():
        warnings.simplefilter("ignore")
        for f in (int, float):
            try:
                f(1 + 2j)
                ok = False
            except TypeError:
                ok = True
            rep.check(ok, R, "%s(PyComplex)" % f.__name__, "%s() of a Python complex raises TypeError" % f.__name__)
            try:
                r = f(np.complex128(1 + 2j))
                ok = (r == 1)
            except Exception:
                ok = False
            rep.check(ok, R, "%s(NpComplex)" % f.__name__, "%s() of a NumPy complex scalar silently returns the real part (ComplexWarning only)" % f.__name__)
        try:
            a = np.array([np.complex128(1 + 2j), 2.0], dtype=np.float64)
            ok = a[0] == 1.0
        except Exception:
            ok = False
        rep.check(ok, R, "np.array([NpComplex], dtype=float64)", "np.array with a real dtype silently drops the imaginary part of NumPy complex scalars")
        try:
            np.array([1 + 2j, 2.0], dtype=np.float64)
            ok = False
        except TypeError:
            ok = True
        rep.check(ok, R, "np.array([PyComplex], dtype=float64)", "np.array with a real dtype raises TypeError for Python complex elements")
    # integer inverses
    for v in (2, True, np.int64(2)):
        try:
            np.power(v, -1)
            ok = False
        except ValueError:
            ok = True
        rep.check(ok, R, "np.power(%s, -1)" % type(v).__name__, "np.power(integer kind, -1) raises ValueError")
    rep.check(int(np.reciprocal(np.int64(2))) == 0, R, "np.reciprocal(NpInt)", "np.reciprocal of an integer is integer division (0 for 2)")
    rep.check(np.power(2.0, -1) == 0.5 and np.prod([3, np.power(2.0, -1)], axis=0) == 1.5, R, "np.power(float, -1)", "np.power(float, -1) is the reciprocal")
    # integer-preserving operators
    for name, f in (("np.sum", lambda a, b: np.sum([a, b], axis=0)), ("np.prod", lambda a, b: np.prod([a, b], axis=0)), ("np.power", lambda a, b: np.power(a, b))):
        r = f(3, 4)
        rep.check(isinstance(r, np.integer), R, name, "%s on two ints gives a NumPy integer" % name, "gives %s" % type(r).__name__)
        r = f(np.int64(3), 4)
        rep.check(isinstance(r, np.integer), R, name, "%s on np.int64 and int gives a NumPy integer" % name)
        r = f(3, 0.5)
        rep.check(isinstance(r, np.floating), R, name, "%s on int and float gives a NumPy float" % name)
    rep.check(np.sum([3, -4], axis=0) == -1 and np.prod([3, 4], axis=0) == 12 and np.power(3, 4) == 81, R, "np.sum/prod/power", "values of the operator idioms")
    # format shapes
    if G is not None:
        from .py.templates import Lang, FORMAT_SHAPE
        from .rules.c18 import accepts
        L = Lang(G)
        for kname, vals in samples.items():
            sh = FORMAT_SHAPE.get(kname.replace("Complex0", "Complex"))
            if not sh or kname in ("PyStr",):
                continue
            n = L.of_rule(sh)
            for v in vals:
                txt = "{}".format(v)
                rep.check(accepts(n, txt), R, "format(%s)" % kname, "'{}'.format(%r) = %r belongs to shape class %s" % (v, txt, sh), key="shape|%s|%s" % (kname, txt))
        for v in samples["PyComplex"] + samples["NpComplex"]:
            txt = "{}{}{}j".format(v.real, "+-"[int(v.imag < 0)], np.abs(v.imag))
            n = L.of_pieces([("hole", "SH_FLOAT"), ("hole", "SH_SIGN"), ("hole", "SH_UFLOAT"), ("lit", "j")])
            rep.check(accepts(n, txt), R, "complex template", "%r belongs to <SH_FLOAT><SH_SIGN><SH_UFLOAT>j" % txt, key="shape|ctmpl|" + txt)
        rep.check("{}".format([np.int64(2)]).startswith("[np.int64(") and "{}".format(["a"]) == "['a']", R, "format(list)", "str(list) uses repr of the elements (np.int64(2), single quotes)")
    # sympy
    a, b = sym.symbols("a b")
    e = a + 2 * b
    rep.check(isinstance(e.free_symbols, set) and sym.lambdify([a, b], e)(**{"a": 1, "b": 2}) == 5 and sym.lambdify([b, a], e)(1, 2) == 4, R, "sympy", "free_symbols is a set; lambdify binds positionally in list order and by keyword")
    rep.check(str(sym.Symbol("alpha") * 2) == "2*alpha", R, "sympy str", "str of an expression prints bare symbol names")


def atn_cross_check(rep, M):
    """own deserialiser vs the installed runtime's on the shipped ATNs"""
    R = "LIB.ATN"
    rep.rule(R, "the own ATN deserialiser reads the same states, rules, decisions and transitions as the antlr4 runtime's deserialiser", floor=2)
    try:
        from antlr4.atn.ATNDeserializer import ATNDeserializer
    except Exception as e:
        raise Inconclusive("antlr4 runtime not importable: %s" % e)
    for name, ints, mine in (("parser", M.parser_ints["py class"], M.PA), ("lexer", M.lexer_ints["py class"], M.LA)):
        atn = ATNDeserializer().deserialize("".join(chr(i) for i in ints))
        n_states = len(atn.states)
        n_rules = len(atn.ruleToStartState)
        n_dec = len(atn.decisionToState)
        ok = n_states == len(mine.states) and n_rules == len(mine.ruleStart) and n_dec == len(mine.decisions)
        rep.check(ok, R, name + " ATN", "%s ATN: %d states, %d rules, %d decisions in both deserialisers" % (name, n_states, n_rules, n_dec),
                  "own: %d/%d/%d" % (len(mine.states), len(mine.ruleStart), len(mine.decisions)))
