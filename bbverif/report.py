"""Obligation bookkeeping, verdict protocol and evidence files (DESIGN section 2)."""
import hashlib
import json
import os
import re
import time

from . import VERIF

EVDIR = os.environ.get("BBVERIF_EVIDENCE_DIR") or os.path.join(VERIF, "evidence")   # the seeded-mutant runner redirects evidence away from /verif/evidence
DISCHARGED, REFUTED, INCONCLUSIVE, KNOWN, INFO = "discharged", "refuted", "inconclusive", "known", "info"


class Inconclusive(Exception):
    """Raised by an analysis when a construct is outside the idiom set it understands,
    or an anchor vanished.  Never reported as a violation."""


def norm(text):
    """normalised statement text used in finding keys (no line numbers, no layout)"""
    return re.sub(r"\s+", " ", str(text)).strip()


class Obligation:
    __slots__ = ("rule", "site", "text", "status", "detail", "key")

    def __init__(self, rule, site, text, status, detail="", key=None):
        self.rule, self.site, self.text, self.status, self.detail = rule, site, text, status, detail
        self.key = key or norm(text)

    def as_dict(self):
        d = {"rule": self.rule, "site": self.site, "obligation": self.text, "status": self.status}
        if self.detail:
            d["detail"] = self.detail
        return d


class Report:
    def __init__(self, prop, tier, level, seed=0):
        self.prop, self.tier, self.level, self.seed = prop, tier, level, seed
        self.obs = []
        self.files = {}
        self.rules = {}
        self.floors = {}
        self.notes = []
        self.trusted = []
        self.t0 = time.time()
        self.extra = {}

    # ---- registration
    def rule(self, rid, text, floor=1):
        self.rules[rid] = text
        self.floors[rid] = floor

    def file(self, path, data):
        self.files[path] = hashlib.sha256(data if isinstance(data, bytes) else data.encode()).hexdigest()[:16]

    def trust(self, *items):
        for i in items:
            if i not in self.trusted:
                self.trusted.append(i)

    def note(self, text):
        self.notes.append(text)

    # ---- obligations
    def ok(self, rule, site, text, detail=""):
        self.obs.append(Obligation(rule, site, text, DISCHARGED, detail))

    def bad(self, rule, site, text, detail="", key=None):
        self.obs.append(Obligation(rule, site, text, REFUTED, detail, key))

    def unknown(self, rule, site, text, detail=""):
        self.obs.append(Obligation(rule, site, text, INCONCLUSIVE, detail))

    def info(self, rule, site, text, detail=""):
        self.obs.append(Obligation(rule, site, text, INFO, detail))

    def check(self, cond, rule, site, text, detail="", key=None):
        if cond:
            self.ok(rule, site, text, detail)
        else:
            self.bad(rule, site, text, detail, key)
        return cond

    # ---- verdict
    def finish(self, known_findings):
        """apply known findings, instance floors; write evidence; return exit code"""
        out = []
        known_hits = []
        for o in self.obs:
            if o.status == REFUTED:
                for k in known_findings:
                    if k.get("property") == self.prop and k.get("rule") == o.rule and k.get("key") == o.key:
                        o.status = KNOWN
                        known_hits.append((k, o))
                        break
        counts = {}
        for o in self.obs:
            counts.setdefault(o.rule, 0)
            if o.status in (DISCHARGED, REFUTED, KNOWN):
                counts[o.rule] += 1
        for rid, floor in self.floors.items():
            if counts.get(rid, 0) < floor and not any(o.rule == rid and o.status == INCONCLUSIVE for o in self.obs):
                self.obs.append(Obligation(rid, "-", "instance floor: rule %s must have at least %d decided instances" % (rid, floor),
                                           INCONCLUSIVE, "found %d" % counts.get(rid, 0)))
        refuted = [o for o in self.obs if o.status == REFUTED]
        incon = [o for o in self.obs if o.status == INCONCLUSIVE]
        for k, o in known_hits:
            out.append("KNOWN-FINDING: property=%s %s [%s at %s]" % (self.prop, k.get("what", o.text), o.rule, o.site))
        code = 0
        replay = None
        if refuted:
            code = 1
            replay = os.path.join(EVDIR, "%s.violations.json" % self.prop)
            os.makedirs(EVDIR, exist_ok=True)
            with open(replay, "w") as f:
                json.dump([dict(o.as_dict(), key=o.key) for o in refuted], f, indent=1)
            for o in refuted:
                out.append("REFUTED %s at %s: %s%s" % (o.rule, o.site, o.text, (" -- " + o.detail) if o.detail else ""))
            out.append("VIOLATION property=%s replay=%s" % (self.prop, replay))
        elif incon:
            code = 2
            for o in incon:
                out.append("ANALYSIS-INCONCLUSIVE property=%s %s at %s: %s%s" % (self.prop, o.rule, o.site, o.text, (" -- " + o.detail) if o.detail else ""))
        else:
            vf = os.path.join(EVDIR, "%s.violations.json" % self.prop)
            if os.path.exists(vf):
                os.remove(vf)
        self.write_evidence(code, len(refuted))
        return code, out

    def write_evidence(self, code, nviol):
        decided = [o for o in self.obs if o.status in (DISCHARGED, REFUTED, KNOWN)]
        dis = [o for o in self.obs if o.status in (DISCHARGED, KNOWN)]
        per_rule = {}
        for o in self.obs:
            r = per_rule.setdefault(o.rule, {"text": self.rules.get(o.rule, ""), "floor": self.floors.get(o.rule, 0),
                                             "discharged": 0, "refuted": 0, "inconclusive": 0, "known": 0, "info": 0})
            r[o.status] += 1
        samples = [o.as_dict() for o in self.obs if o.status != DISCHARGED][:20]
        seen = set()
        for o in self.obs:
            if o.status == DISCHARGED and o.rule not in seen:
                seen.add(o.rule)
                samples.append(o.as_dict())
        distinct = len({(o.rule, o.site, o.key) for o in decided})
        cov = {
            "explanation": "static analysis of /repo sources (ast / grammar / ATN); every obligation is a rule instance at a named construct; "
                           "nothing under /repo is imported or executed",
            "obligations": len(decided),
            "discharged": len(dis),
            "checker_cmd": "/venv/bin/python -m bbverif.check %s --tier %s" % (self.prop, self.tier),
            "trusted_base": self.trusted,
            "evaluations": len(decided),
            "distinct_nontrivial": distinct,
            "rule": "one evaluation = one rule instance (rule id, construct, obligation text) found in the current source; "
                    "distinct = distinct (rule, site, obligation) triples",
            "samples": samples,
            "rules": per_rule,
            "files_analysed": self.files,
            "all_obligations": [o.as_dict() for o in self.obs],
            "notes": self.notes,
            "exit_code": code,
            "exhaustive": True,
        }
        if self.level == "translation_validation":
            cov["programs"] = self.extra.get("programs", len(decided))
            cov["disagreements_checked"] = self.extra.get("disagreements_checked", len(decided))
        cov.update({k: v for k, v in self.extra.items() if k not in cov})
        ev = {
            "property_id": self.prop,
            "tier": self.tier,
            "seed": self.seed,
            "level": self.level,
            "coverage": cov,
            "assumptions": self.trusted,
            "wall_s": round(time.time() - self.t0, 3),
            "violations": nviol,
        }
        path = os.path.join(EVDIR, "%s.json" % self.prop)
        os.makedirs(os.path.dirname(path), exist_ok=True)
        with open(path, "w") as f:
            json.dump(ev, f, indent=1, default=str)
