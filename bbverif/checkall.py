"""Development helper (not a registered command): run several property checks in ONE process, so that the program index, the effect analysis and
the grammar model are built once.  Prints one line per property:  <ID> <exit code> <first refuted / inconclusive line>.

    python -m bbverif.checkall C01 C02 ...      (no arguments: every claimed property)
"""
import contextlib
import io
import json
import os
import sys

from . import VERIF
from . import check


def main(argv):
    props = [a.upper() for a in argv] or [c["property_id"] for c in json.load(open(os.path.join(VERIF, "MANIFEST.json")))["checks"]]
    for p in props:
        buf = io.StringIO()
        try:
            with contextlib.redirect_stdout(buf):
                code = check.main([p, "--tier", "quick"])
        except SystemExit as e:
            code = e.code if isinstance(e.code, int) else 2
        except BaseException as e:          # a broken checker must never look like a verdict
            code = 2
            buf.write("ANALYSIS-ERROR %s: %s\n" % (type(e).__name__, e))
        first = next((l for l in buf.getvalue().splitlines() if l.startswith(("REFUTED", "ANALYSIS"))), "")
        print("%s %d %s" % (p, code, first[:200]))
        sys.stdout.flush()


if __name__ == "__main__":
    main(sys.argv[1:])
    sys.stdout.flush()
    os._exit(0)
