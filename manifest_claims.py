NA["C17"] = ("identity between solved parameter values and the values that produced the program, through VF2 graph isomorphism and SymPy solve: "
             "every clause quantifies over runtime numeric values and library search; no sound static argument in reach (DESIGN 5/C17)")

claim("C14", "translation_validation", "per-rule automata equivalence (grammar NFA vs decompiled ATN), artefact identity, generated-code event comparison",
      "Decides language equality between blackbird.g4 and the automata the shipped Python/C++ recognisers interpret: all ATN copies identical (A1), vocabularies agree (A2), "
      "every parser and lexer rule's ATN sub-machine is language-equivalent to the grammar rule (A3/A4, decided on determinised automata, exhaustive over all strings), "
      "generated classes wire the stock simulators to that ATN (A5), each Python rule method is language-equivalent to its ATN sub-machine (K1) and its LL(1) token tests, adaptivePredict decision numbers and "
      "state numbers are those of the ATN (K1b: own LL(1) LOOK analysis), C++ and Python rule functions have identical event sequences (K2), listener/context dispatch complete (K3).",
      "Trusted: antlr4 4.9.2 runtimes implement maximal-munch/first-rule lexing and ALL(*) parsing over the ATN they are given; ANTLR's left-recursion rewrite as documented.",
      "DESIGN.md 4.1-4.3, 5/C14")

claim("C18", "other", "lexer-rule language analysis + NEWLINE-skeleton DFA closure on the grammar, tied to the shipped ATN by per-rule automata equivalence; position-taint lint on handwritten modules",
      "Decides on the automata that (1) SPACE/COMMENT are the only skipped rules and no other token can contain blanks/line ends/'#', (2) NEWLINE, TAB, COMMENT, SPACE have exactly the stated languages, "
      "(3) at every layout position of the NEWLINE skeleton an extra NEWLINE is absorbed and a final NEWLINE is optional, (4) handwritten code reads script content only through getText/typed accessors. "
      "The positions the property excludes (array bodies, loop header to first body line) are reported as the structural NEWLINE edges.",
      "Trusted: antlr4 runtime lexer semantics (longest match, first rule wins ties, skip). Not decided: nothing numeric is involved.",
      "DESIGN.md 5/C18")

claim("C13", "proof", "interprocedural effect/provenance analysis (flow-sensitive abstract interpretation over ast, function summaries to a fixpoint)",
      "Every mutation site (attribute/subscript store, delete, augmented assignment, mutating method, in-place library call, callee summary) in serialize, to_DiGraph, match_template, "
      "dump(s), numpy_to_blackbird, __len__, is_template and every property getter is shown to target only freshly created objects; in __call__ every mutation targets the deep copy and the returned "
      "object's reachable origins exclude the template and module state. Obligations = mutation sites + return-value provenance; all discharged on the current tree.",
      "Trusted: library model (NumPy/SymPy/networkx calls do not mutate arguments except a listed set; deepcopy shares nothing mutable), Python semantics of the subset used. "
      "Observational equality of serialisations is implied by absence of writes, not computed.",
      "DESIGN.md 4.5 EFF, 5/C13")

claim("C12", "proof", "typestate analysis of module-level tables over the grammar-derived listener event language + effect/provenance inventory of process-wide mutable state",
      "Enumerates every module-level and class-level mutable object of the handwritten package; each is proven constant (never written by any function, via interprocedural effect summaries) or is a table "
      "for which, on every path of listener events that the grammar allows (including abortion at any event and the nested walk of includes), the first access after a walk starts is a clear. "
      "Also proves no process-wide object is stored into programs/listeners or returned. Obligations = (event, table) pairs + inventory entries + store sites; all discharged.",
      "Trusted: ParseTreeWalker event order; generated prediction caches are transparent; warnings registry affects only warnings.",
      "DESIGN.md 4.5 TS/EFF, 5/C12")

claim("C19", "proof", "unordered-collection taint analysis (sources: sets, free_symbols, set-returning properties; sinks: order-sensitive consumers) over ast with function summaries",
      "Every unordered source whose element hashes derive from strings (SymPy free_symbols, the parameters property, set() of names) in the handwritten package is followed through "
      "materialisation (list/tuple/comprehension/dict/lambdify) to its consumers; none reaches an order-sensitive sink. The documented exception (RegRefTransform's register order) is admitted only in "
      "its paired form, which is checked structurally. Obligations = sources + sinks + pairing clauses; all discharged.",
      "Trusted: SymPy's printer orders terms canonically; dict order is insertion order; int-element sets iterate independently of the seed (reported as information here, decided under C07/C16).",
      "DESIGN.md 4.5 ORD, 5/C19")

claim("C07", "other", "def-use provenance of include paths, unordered-flow sinks on the mode map, effect analysis of the expansion block, finite-model evaluation of the dominating call guards",
      "Decides the structural clauses: (1) include file names flow join(self._cwd, STR text) -> FileStream, cwd from dirname(file), getcwd only as fallback, no chdir; (2) included modes reach zip only through sorted(); "
      "(3) every mutation in the expansion targets fresh objects and nothing shared with the stored include enters the program (covers repeated calls); (4) on all 256 models of (mode counts, has-arguments, "
      "parameter set, keyword set) the expansion is reachable only when arity and keyword set match; (5) merge/dedupe/lookup of the include table.",
      "Not decided: numeric equality of bound parameter values (C04's runtime part). Trusted: library model, FileStream opens the path it is given.",
      "DESIGN.md 5/C07")

claim("C10", "other", "automata equivalence for the syntax stage (as C14) + pipeline def-use/typestate lint, all-paths-raise, message-argument provenance and context-accessor typing on the error listener",
      "Decides: (1) the recognisers accept exactly L(blackbird.g4), start requires EOF, the lexer is total; (2) every parse feeds the caller's unmodified text through lexer->token stream->parser, installs "
      "BlackbirdErrorListener after removing the defaults, calls start() once and changes no other parser setting; (3) syntaxError raises BlackbirdSyntaxError on every path and the class cannot be absorbed "
      "by the runtime; (4) every message carries the unmodified line and column+1; (5) no __dict__ lookups on slotted objects, every accessor used on a typed context exists, names are definitely assigned.",
      "Not decided: 'never earlier than the first offending token' (viable-prefix property of the trusted ALL(*) runtime); nullness of accessor results on incomplete trees beyond accessor existence.",
      "DESIGN.md 5/C10")

claim("C11", "other", "finite-model evaluation of dominating guards (membership, reserved-name alternatives from the grammar, value kinds) + raise-payload provenance + no-swallow lint",
      "For each fault class the store/lookup/cast that would accept the faulty program is shown unreachable on every model: table lookups only for defined names (else BlackbirdSyntaxError with line, column, name); "
      "declarations only for non-reserved names (alternatives of `invalid` read from the grammar); modes only for integer kinds; casts to int/float never for NumPy complex scalars; loop bindings only "
      "after an equal cast; include expansion only for matching arity/keywords; and no handler on the load path absorbs an exception.",
      "Trusted: library model of isinstance relations and of silent/raising casts (validated against the installed libraries in the thorough tier). Guards outside the evaluator's operator set are inconclusive.",
      "DESIGN.md 5/C11")

claim("C06", "other", "typestate of the deferral flag over enter/exit handlers, finite-model guard evaluation, structural replay-order and header checks against the grammar, effect evaluation of the scope clean-up on a 3-element table model",
      "Decides: deferral (flag set on enter, reset first in exit, early return iff parent is a loop and flag set, on all four models); replay order (values outer, statement_list inner, exitStatement per statement, binding before replay); "
      "header evaluation (range from the INT children in order; every `val` alternative of the grammar handled in child order); binding only after an equal cast with the declared constructor; "
      "loop variable removed on every normal exit including zero iterations and falsy last values.",
      "Not decided: evaluation of the body statements themselves (C02/C03). Trusted: walker event order.",
      "DESIGN.md 5/C06")

claim("C16", "other", "structural pattern analysis of to_DiGraph (dependency-set construction, append-only wire lists indexed by enumerate position, consecutive-pair edges) + unordered-flow and effect checks",
      "Decides the structural clauses: the dependency set is modes plus registers of transforms in both argument slots and is a set; wire lists are append-only with the operation's enumerate index, so strictly increasing; "
      "every edge joins positions i-1 and i of one wire list (hence forward, acyclic, per-wire program order); node attributes come from the operation; the graph depends only on program.operations (no cache, no mutation).",
      "Not decided: the reachability equivalence ('j reachable from i iff a sharing chain exists') - a statement about the algorithm's output over all operation sequences, no sound static argument in reach beyond the forward-edge invariant.",
      "DESIGN.md 5/C16")

claim("C08", "other", "grammar-derived token facts, unordered-flow pairing check on RegRefTransform, finite-model evaluation of the wrapping guards, effect analysis of the stored transforms, who-may-write rule on the parameter table",
      "Decides: REGREF evaluates to Symbol(token text); func and regrefs come from one materialisation of free_symbols in the same order (documented freedom stays paired); register number = text after the grammar's literal prefix; "
      "in both argument slots exactly SymPy values with a non-parameter symbol are replaced by a freshly built RegRefTransform of that value (36 models per slot); only parameter-derived names ever enter the parameter table.",
      "Not decided: that SymPy's lambdify computes the expression (library).",
      "DESIGN.md 5/C08")

claim("C03", "other", "grammar/ATN precedence table extraction + syntax-directed operator-term extraction of the evaluator with idiom normalisation + finite-model (value kind) evaluation of the division guard",
      "Decides: the precedence/associativity table executed by the parser (grammar = ATN = generated code, and equals brackets > sign > ** right > */ > +-); one evaluator branch per grammar alternative; each branch's operator term "
      "equals the specification on the evaluated children in grammar order with no casts (so integers stay integers); the 15 function tokens map to the like-named NumPy functions and the 4 literal kinds to their constructors "
      "(tables derived from the grammar); true division is defined for every divisor kind (integer kinds are cast before the inverse); A[k] is row-major.",
      "Not decided: accuracy within 1e-12 and overflow (library arithmetic, trusted).",
      "DESIGN.md 5/C03")

claim("C02", "other", "context typing against the generated parser, grammar-derived child-presence profiles vs dispatch chains (exhaustiveness), def-use provenance of metadata and arguments, effect counting on exitStatement paths",
      "Decides: handlers are live and every accessor used exists on its context class; every dispatch chain covers all child-presence profiles the grammar allows and every dereferenced accessor result is guaranteed or guarded; "
      "metadata fields are the exact token texts; arguments are the evaluator's results stored unmodified in source order; every non-deferred completion of exitStatement adds exactly one entry at the end built from the statement; "
      "modes are stored only if integer; reported modes/length/fields are the accumulated ones.",
      "Not decided: the values of arguments (C03); walker order (trusted). Known finding: the empty-list alternative of kwarg is dropped (pinned by an existing unit test).",
      "DESIGN.md 5/C02")

claim("C05", "other", "grammar-derived type-map check, def-use of casts and dtype arguments, finite-model evaluation of the shape guard, idiom recognition of the row-length guard and parameter positions, aliasing lint",
      "Decides: the type maps have exactly the grammar's vartype literals and map to like-named types; scalars are stored through the declared constructor (symbolic values excepted); arrays are built with the declared dtype on every path; "
      "a declared shape that differs raises before the store; ragged rows raise before the row-count reshape; parameters are recorded at their ordinal position and re-inserted in order; A[k] is row-major.",
      "Not decided: value equality of initialisers (C03). Trusted: NumPy array construction/reshape/insert semantics.",
      "DESIGN.md 5/C05")

claim("C04", "other", "effect/provenance analysis of __call__, sibling agreement of the four substitution sites, guarded-lookup check, unordered-flow check (bind by name), structural checks of parameter collection and array positions",
      "Decides the structural clauses: is_template/parameters derive from _parameters; the instantiated program is a deep copy with its parameter list reset; each of the four substitution sites uses the same bind-by-name idiom and every "
      "value lookup is translated KeyError->ValueError; every {name} is recorded as Symbol(name), only parameter-derived names enter the table, non-p-type entries are published; whole-array parameters expand to name_i_j row-major; "
      "array-element parameters are re-inserted at their ordinal positions.",
      "Not decided: the numerical commutation itself (values after lambdify equal values after re-parsing the substituted text) - runtime arithmetic. Known finding: arrayvar's bare `parameter` alternative (see C02).",
      "DESIGN.md 5/C04")

claim("C15", "other", "finite-model evaluation of the p-type predicates (listener and both serialiser copies) and of the registration guard, who-may-write rule on the parameter table, structural checks of the evaluator branch, serialiser template analysis",
      "Decides: the three copies of the p-type predicate agree on a fixed set of model strings and the serialiser copies additionally require type tdm; p-arrays are registered iff tdm and p-type, before the store; the evaluator returns the name "
      "exactly for registered names after the array check; p-names are filtered out of the published parameters; only recognised writers touch the parameter table; tdm variable declarations are written in the language of the declaration they are.",
      "Not decided: array element values (library formatting).",
      "DESIGN.md 5/C15")

T_TEXT = ("Reads the serialiser's isinstance dispatch per value slot from the source as a table guard -> template; for every value kind that can occupy the slot selects the catching arm with the library's real class relations, renders the "
          "template with the kind's shape class and decides, on character automata compiled from blackbird.g4, that the rendering language is included in the grammar form reading back as the same kind (and disjoint from forms of other kinds). "
          "Also decides: parameters re-braced in one whole-identifier pass (no set-order dependence), ', ' separators, metadata/statement/mode-list shapes, array declarations per dtype with one fresh hoisted declaration per array, "
          "p-type predicate agreement and tdm variable declarations.")
claim("C01", "other", "serializer template analysis: dispatch-table extraction + regular-language inclusion of rendered templates in grammar token forms; unordered-flow and structural checks",
      T_TEXT + " Kind sets: what the loader can produce.",
      "Not decided: float printing precision; that SymPy's str of an arbitrary expression re-parses to an equal expression (trusted); exact element equality beyond 'repr of a float round-trips'. Trusted: shape classes of str.format per kind.",
      "DESIGN.md 4.7, 5/C01")
claim("C09", "other", "serializer template analysis: dispatch-table extraction + regular-language inclusion of rendered templates in grammar token forms; unordered-flow and structural checks",
      T_TEXT + " Kind sets: the API's supported values (adds NumPy booleans).",
      "Not decided: exact element round trip (library repr); signed zero in the imaginary part of complex values ('+-'[imag < 0] loses the sign of -0.0: a value-level fact). Trusted: shape classes of str.format per kind.",
      "DESIGN.md 4.7, 5/C09")
