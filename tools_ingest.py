"""Development helper (not a registered command): confirm a change produced by a sub-agent in a scratch worktree and keep it in the corpus.

    /venv/bin/python tools_ingest.py seeded <dir with patch.diff demo.py meta.json> <ID, e.g. C07-r11m2>
    /venv/bin/python tools_ingest.py benign <dir with patch.diff equiv.py meta.json> <ID, e.g. B37-b1>

seeded: the demonstration must exit 0 on the unchanged tree and non-zero with the change, and the suite's failing set must be the baseline's.
benign: the suite's failing set must be the baseline's and equiv.py must print the same bytes with and without the change.
The scratch worktree (outside /repo and /verif) is removed before the tool returns.  Nothing is ever applied to /repo.
"""
import json
import os
import shutil
import subprocess
import sys
import tempfile

VERIF = os.path.dirname(os.path.abspath(__file__))
REPO = "/repo"
PY = "/venv/bin/python"


def sh(cmd, cwd=None, env=None, timeout=900):
    r = subprocess.run(cmd, cwd=cwd, env=env, capture_output=True, text=True, timeout=timeout)
    return r.returncode, r.stdout + r.stderr


def failing(wt):
    env = dict(os.environ, PYTHONPATH=os.path.join(wt, "blackbird_python"), PYTHONDONTWRITEBYTECODE="1")
    rc, out = sh([PY, "-m", "pytest", "-q", "-p", "no:cacheprovider"], cwd=wt, env=env)
    fails = sorted(l.split(" - ")[0] for l in out.splitlines() if l.startswith(("FAILED", "ERROR")))
    tail = [l for l in out.splitlines() if " passed" in l or " failed" in l or " error" in l]
    return fails, (tail[-1] if tail else out[-300:])


def main():
    kind, src, ident = sys.argv[1], os.path.abspath(sys.argv[2]), sys.argv[3]
    patch = os.path.join(src, "patch.diff")
    prog = os.path.join(src, "demo.py" if kind == "seeded" else "equiv.py")
    meta = json.load(open(os.path.join(src, "meta.json")))
    for f in (patch, prog):
        if not os.path.exists(f):
            print("REJECT %s: missing %s" % (ident, f))
            return 1
    wt = tempfile.mkdtemp(prefix="bb_ingest_")
    os.rmdir(wt)
    rc, out = sh(["git", "-C", REPO, "worktree", "add", "-q", "--detach", wt, "HEAD"])
    if rc:
        print("REJECT %s: worktree: %s" % (ident, out))
        return 1
    try:
        env = dict(os.environ, PYTHONPATH=os.path.join(wt, "blackbird_python"), PYTHONDONTWRITEBYTECODE="1")
        base_fail, base_tail = failing(wt)
        c_rc, c_out = sh([PY, prog], cwd=tempfile.gettempdir(), env=env)
        rc, out = sh(["git", "apply", patch], cwd=wt)
        if rc:
            print("REJECT %s: patch does not apply: %s" % (ident, out[-300:]))
            return 1
        p_fail, p_tail = failing(wt)
        p_rc, p_out = sh([PY, prog], cwd=tempfile.gettempdir(), env=env)
        if p_fail != base_fail:
            print("REJECT %s: failing set differs: %s" % (ident, sorted(set(p_fail) ^ set(base_fail))[:5]))
            return 1
        if kind == "seeded":
            if c_rc != 0 or p_rc == 0:
                print("REJECT %s: demo clean exit %d, patched exit %d\n%s" % (ident, c_rc, p_rc, (c_out if c_rc else p_out)[-600:]))
                return 1
            meta["verified"] = {"demo_clean_exit": c_rc, "demo_patched_exit": p_rc, "demo_patched_tail": p_out[-500:],
                                "suite": "identical failing set to baseline (%s)" % p_tail.strip("= "),
                                "ran": ["PYTHONPATH=<worktree>/blackbird_python /venv/bin/python demo.py (clean, then after git apply patch.diff)",
                                        "PYTHONPATH=<worktree>/blackbird_python /venv/bin/python -m pytest -q -p no:cacheprovider (clean and patched)"]}
        else:
            if c_rc != p_rc or c_out != p_out:
                print("REJECT %s: equiv.py output differs (exit %d / %d)" % (ident, c_rc, p_rc))
                import difflib
                print("\n".join(list(difflib.unified_diff(c_out.splitlines(), p_out.splitlines(), lineterm=""))[:30]))
                return 1
            meta["verified"] = {"equiv_exit": c_rc, "equiv_output_bytes": len(c_out), "equiv_identical": True,
                                "suite": "identical failing set to baseline (%s)" % p_tail.strip("= ")}
        dst = os.path.join(VERIF, kind, ident)
        os.makedirs(dst, exist_ok=True)
        shutil.copy(patch, os.path.join(dst, "patch.diff"))
        shutil.copy(prog, os.path.join(dst, os.path.basename(prog)))
        json.dump(meta, open(os.path.join(dst, "meta.json"), "w"), indent=1)
        print("KEPT %s (%s)" % (ident, p_tail.strip("= ")))
        return 0
    finally:
        sh(["git", "-C", REPO, "worktree", "remove", "--force", wt])
        shutil.rmtree(wt, ignore_errors=True)


if __name__ == "__main__":
    sys.exit(main())
